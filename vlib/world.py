"""The symbolic "world": shims, template handling and session drivers shared by the harnesses.

Program text is concrete, data is symbolic (DESIGN.md section 0/1.A).  Values enter templates through names:
  c<k>  canonical constant  (the renderer produces exactly this token for an equal value)
  h<k>  hand-written expression (token stream is never canonical)
  x<k>, xs ...  observed values
In *concrete* mode (replays, pre-warm) the same templates are instantiated textually with real literals, so
that nothing of the rendering abstraction is left: real repr, real tokens.
"""
from __future__ import annotations

import ast
import builtins
import contextlib
import hashlib
import io
import os
import pathlib
import re
import sys
import tokenize
import types
from typing import Any, Dict, List, Optional

from vlib.common import scratch_dir

try:
    from crosshair.core import CrossHairValue
    from crosshair.tracers import NoTracing
except Exception:  # pragma: no cover
    CrossHairValue = ()  # type: ignore

    @contextlib.contextmanager
    def NoTracing():  # type: ignore
        yield


import inline_snapshot._adapter.adapter as AD
import inline_snapshot._code_repr as CR
import inline_snapshot._config as CFG
import inline_snapshot._format as FM
import inline_snapshot._problems as PR
import inline_snapshot._rewrite_code as RC
from inline_snapshot._change import apply_all
from inline_snapshot._flags import Flags
from inline_snapshot._global_state import snapshot_env
from inline_snapshot._rewrite_code import ChangeRecorder


class W:
    """per-path state"""

    ns: Dict[str, Any] = {}  # names visible to templates (symbolic values, classes)
    ph: Dict[str, Any] = {}  # placeholders the renderer introduced: name -> symbolic value
    n = 0
    concrete = False  # True: instantiate templates with literals (replay / pre-warm)
    no_canon = False  # True: every rendered symbolic leaf gets a fresh placeholder (harnesses that never read the text)
    problems: List[str] = []


def is_symbolic(v) -> bool:
    with NoTracing():
        return isinstance(v, CrossHairValue)


_orig_repr = CR.real_repr


def _is_canonical_name(name) -> bool:
    return (name[0] == "c" and name[1:].isdigit()) or (name[0] == "V" and name[-1] == "_" and name[1:-1].isdigit())


def canon_name(v):
    """The token the (stubbed) renderer produces for int value v: the first canonical constant c<k> with an equal
    value, else the first placeholder with an equal value.  'repr is a function of the value': equal values get
    equal tokens, different values different tokens - decided by the solver."""
    for name, val in W.ns.items():
        if name[0] == "c" and name[1:].isdigit() and isinstance(val, int) and not isinstance(val, bool) and val == v:
            return name
    for name, val in W.ph.items():
        if val is v or val == v:
            return name
    return None


def sym_repr(v):
    """Stub for inline_snapshot._code_repr.real_repr: symbolic int leaf -> name, everything else real repr.

    Contract: the repr of an int leaf is an atom expression that evaluates to that value and whose token is stable."""
    if not is_symbolic(v):
        return _orig_repr(v)
    name = None if W.no_canon else canon_name(v)
    if name is not None:
        return name
    name = f"V{W.n}_"
    W.n += 1
    W.ph[name] = v
    return name


def canon_tokens(tokens):
    """Tokens read from the file: a canonical name (c<k> / V<n>_) stands for the literal of its value, so it is
    mapped to the same representative the renderer would choose for that value."""
    if W.concrete:
        return tokens
    out = []
    for t in tokens:
        if t.type == 1 and _is_canonical_name(t.string):
            ns = W.ns if t.string in W.ns else W.ph
            if t.string in ns and is_symbolic(ns[t.string]):
                rep = canon_name(ns[t.string])
                if rep is not None and rep != t.string:
                    t = type(t)(t.type, rep)
        out.append(t)
    return out


_installed = False
_black_mode = None


def install_shims():
    """Environment shims (DESIGN.md 1.A).  All are attribute assignments in this process; /repo is untouched."""
    global _installed, _black_mode
    if _installed:
        return
    _installed = True
    CR.real_repr = sym_repr
    import black

    _real_fs = black.format_str

    def _fs(text, *, mode):
        with NoTracing():
            return _real_fs(str(text), mode=mode)

    black.format_str = _fs
    _real_fmfp = FM.file_mode_for_path
    _mode_cache: Dict[str, Any] = {}

    def file_mode_for_path(path):
        with NoTracing():
            key = str(pathlib.Path(str(path)).parent)
            if key not in _mode_cache:
                _mode_cache[key] = _real_fmfp(path)
            return _mode_cache[key]

    FM.file_mode_for_path = file_mode_for_path

    def fast_compile(*a, **k):
        with NoTracing():
            return builtins.compile(*a, **k)

    AD.compile = fast_compile

    # Pure functions of the *concrete* program text / code objects run untraced (they never see a symbolic
    # value): executing's node lookup, inspect.getmodule, the asttokens build, the token list of an AST node.
    import inspect

    import executing

    import inline_snapshot._inline_snapshot as IS
    import inline_snapshot._source_file as SF

    _ex = executing.Source.executing.__func__

    def _executing(cls, frame):
        with NoTracing():
            return _ex(cls, frame)

    executing.Source.executing = classmethod(_executing)
    _gm = inspect.getmodule

    def _getmodule(*a, **k):
        with NoTracing():
            return _gm(*a, **k)

    IS.inspect = types.SimpleNamespace(currentframe=inspect.currentframe, getmodule=_getmodule)

    def _nt(cls, name):
        f = getattr(cls, name)

        def w(*a, **k):
            with NoTracing():
                return f(*a, **k)

        w.__name__ = name
        setattr(cls, name, w)

    _nt(SF.SourceFile, "asttokens")
    _ton = SF.SourceFile._token_of_node

    def _token_of_node(self, node):
        with NoTracing():
            toks = _ton(self, node)
        return canon_tokens(toks)

    SF.SourceFile._token_of_node = _token_of_node


_module_state0 = None


def fresh_process_state():
    """Every session of the model starts in a fresh interpreter process: module-level containers of the package
    (dict / list / set globals of inline_snapshot.*) get the contents they had when the harness was loaded, and
    module-level scalars (bool / int / float / str / None flags such as _compare_context._eq_check_only) their values.  Without
    this, state that a path (or an earlier session of the same path) leaves in a module would reach the next one,
    which no real run can do - a counterexample found that way would not replay."""
    global _module_state0
    with NoTracing():
        if _module_state0 is None:
            _module_state0 = []
            for name, mod in sorted(sys.modules.items()):
                if (name == "inline_snapshot" or name.startswith("inline_snapshot.")) and mod is not None:
                    for k, v in list(vars(mod).items()):
                        if not k.startswith("__") and type(v) in (dict, list, set):
                            _module_state0.append((mod, k, v, type(v)(v)))
                        elif not k.startswith("__") and type(v) in (bool, int, float, str, type(None)):
                            _module_state0.append((mod, k, None, v))  # scalar flag / counter: rebound, not mutated
            return
        for mod, k, obj, initial in _module_state0:
            if obj is None:
                if vars(mod).get(k, initial) is not initial:
                    setattr(mod, k, initial)
            elif type(obj) is list:
                obj[:] = initial
            else:
                obj.clear()
                obj.update(initial)


def reset(ns: Dict[str, Any]):
    W.ns = dict(ns)
    W.ph = {}
    W.n = 0
    with NoTracing():
        PR.all_problems.clear()
    fresh_process_state()


def eval_ns() -> Dict[str, Any]:
    d = {}
    d.update(W.ns)
    d.update(W.ph)
    return d


# ---------------------------------------------------------------- templates


def _lit(v) -> str:
    return _orig_repr(v)


def instantiate(template: str, ns: Dict[str, Any]) -> str:
    """Concrete mode: replace NAME tokens c<k> by the literal of their value and h<k> by a hand-written
    (non canonical) expression of the same value.  Other names stay names (defined in the exec globals)."""
    out = []
    toks = list(tokenize.generate_tokens(io.StringIO(template).readline))
    res = []
    for t in toks:
        if t.type == tokenize.NAME and re.fullmatch(r"[ch]\d+", t.string) and t.string in ns and isinstance(ns[t.string], int):
            v = ns[t.string]
            if t.string[0] == "c":
                s = _lit(v)
            else:
                s = f"{_lit(v)} + 0" if v >= 0 else f"{_lit(v)} - 0"
            res.append((t, s))
    if not res:
        return template
    lines = re.split(r"(?<=\n)", template)  # the tokenizer counts lines by \n only (not \x0c, \r)
    # apply from the end
    for t, s in sorted(res, key=lambda p: (p[0].start[0], p[0].start[1]), reverse=True):
        ln = t.start[0] - 1
        line = lines[ln]
        lines[ln] = line[: t.start[1]] + s + line[t.end[1]:]
    return "".join(lines)


def materialize(text: str, stem: str = "m") -> pathlib.Path:
    """Content-addressed scratch module (so that re-execution of a path is deterministic)."""
    with NoTracing():
        text = str(text)
        h = hashlib.sha1(text.encode("utf-8", "surrogatepass")).hexdigest()[:14]
        d = pathlib.Path(scratch_dir()) / "mods"
        d.mkdir(parents=True, exist_ok=True)
        p = d / f"{stem}_{h}.py"
        if not p.exists():
            p.write_bytes(text.encode("utf-8"))
        return p


def prepare(template: str) -> str:
    if W.concrete:
        return instantiate(template, W.ns)
    return template


# ---------------------------------------------------------------- D-core


class SessionResult:
    def __init__(self):
        self.text_before = ""
        self.text = ""  # text after applying the approved changes
        self.changed = False
        self.categories = set()  # categories with pending changes
        self.changes = []
        self.outcomes = {}  # test name -> "passed" | exception object
        self.ns = {}  # module globals after the run
        self.error = None  # exception raised by collection/apply (not by tests)
        self.path = None


def _is_test(k, v):
    return (k.startswith("test_") or k == "test") and callable(v)


def core_session(text: str, approved, *, update_flags=None, extra_globals=None, run=None, collect=True) -> SessionResult:
    """D-core: exec the module text with inline-snapshot active, run its tests, collect the changes with the real
    SnapshotReference._changes(), apply the approved categories with the real apply_all / ChangeRecorder /
    SourceFile.new_code().  `approved` = set of categories to apply; update_flags defaults to `approved`
    (what pytest_configure does for plain category flags)."""
    res = SessionResult()
    fresh_process_state()
    text = prepare(text)
    res.text_before = text
    res.text = text
    path = materialize(text)
    res.path = path
    approved = set(approved)
    with snapshot_env() as st:
        st.update_flags = Flags(set(approved if update_flags is None else update_flags))
        g = {"__name__": "verif_m", "__file__": str(path)}
        g.update(W.ns)
        if extra_globals:
            g.update(extra_globals)
        try:
            code = compile(text, str(path), "exec")
            exec(code, g)
            tests = [(k, v) for k, v in g.items() if _is_test(k, v)]
            for k, v in tests:
                if run is not None and k not in run:
                    continue
                try:
                    v()
                    res.outcomes[k] = "passed"
                except Exception as e:
                    res.outcomes[k] = e
        finally:
            st.active = False
        res.ns = g
        if not collect:
            return res
        changes = []
        for s in st.snapshots.values():
            changes += list(s._changes())
        res.changes = changes
        res.categories = {c.flag for c in changes}
        rec = ChangeRecorder()
        apply_all([c for c in changes if c.flag in approved], rec)
        for f in rec.files():
            new = f.new_code()
            if str(f.filename) == str(path):
                res.text = new
                res.changed = new != text
    return res


# ---------------------------------------------------------------- reading rewritten text


def snapshot_calls(text: str):
    """ast.Call nodes of snapshot(...) in source order."""
    tree = ast.parse(text)
    calls = [c for c in ast.walk(tree) if isinstance(c, ast.Call) and isinstance(c.func, ast.Name) and c.func.id == "snapshot"]
    calls.sort(key=lambda c: (c.lineno, c.col_offset))
    return calls


def snapshot_arg_sources(text: str) -> List[Optional[str]]:
    return [ast.get_source_segment(text, c.args[0]) if c.args else None for c in snapshot_calls(text)]


def snapshot_values(text: str, extra=None) -> list:
    """Evaluate every snapshot argument of `text` in {names -> (symbolic) values}; MISSING for empty calls."""
    ns = eval_ns()
    ns.setdefault("snapshot", lambda *a: a[0] if a else MISSING)  # nested snapshot(...) calls inside an argument
    if extra:
        ns.update(extra)
    out = []
    for src in snapshot_arg_sources(text):
        out.append(MISSING if src is None else eval(src, ns))
    return out


class _Missing:
    def __repr__(self):
        return "MISSING"


MISSING = _Missing()


def mask_snapshot_args(text: str) -> str:
    """text with the argument span of every outermost snapshot( ... ) call blanked."""
    with NoTracing():
        tree = ast.parse(text)
        lines = re.split(r"(?<=\n)", text)  # ast counts lines by \n (and \r\n), not by \x0c
        offs = [0]
        for l in lines:
            offs.append(offs[-1] + len(l.encode("utf-8")))
        b = text.encode("utf-8")

        spans = []

        def visit(node, inside):
            if isinstance(node, ast.Call) and isinstance(node.func, ast.Name) and node.func.id == "snapshot" and not inside:
                # span between '(' after func and the closing ')'
                start = offs[node.func.end_lineno - 1] + node.func.end_col_offset
                end = offs[node.end_lineno - 1] + node.end_col_offset
                spans.append((start, end))
                inside = True
            for ch in ast.iter_child_nodes(node):
                visit(ch, inside)

        visit(tree, False)
        out = bytearray()
        last = 0
        for s, e in sorted(spans):
            out += b[last:s] + b"(...)"
            last = e
        out += b[last:]
        return out.decode("utf-8")


# ---------------------------------------------------------------- D-plugin: the real pytest hooks, in process


class NullConsole:
    is_terminal = False
    printed: List[str] = []

    def __init__(self, *a, **k):
        pass

    def print(self, *a, **k):
        with NoTracing():
            NullConsole.printed.append(" ".join(str(x) for x in a))

    def rule(self, *a, **k):
        with NoTracing():
            NullConsole.printed.append("RULE " + " ".join(str(x) for x in a))


class _Capture:
    def suspend_global_capture(self, in_=False):
        pass

    def resume_global_capture(self):
        pass


class _PM:
    def getplugin(self, name):
        return _Capture()


class PluginEnv:
    """what the stubs of the environment answer on this path"""

    answers: List[bool] = []
    asked: List[str] = []
    written: Dict[str, str] = {}
    write_log: List[str] = []
    capture_writes = False


_plugin_installed = False


def install_plugin_shims():
    global _plugin_installed
    if _plugin_installed:
        return
    _plugin_installed = True
    install_shims()
    import inline_snapshot.pytest_plugin as P

    P.Console = NullConsole
    P.Panel = lambda *a, **k: None
    P.Syntax = lambda *a, **k: None
    P.pydantic_fix = lambda: None
    P.fix_pytest_diff = lambda: None

    class _Confirm:
        @staticmethod
        def ask(question, default=False):
            with NoTracing():
                PluginEnv.asked.append(str(question))
            if PluginEnv.answers:
                return PluginEnv.answers.pop(0)
            return default

    P.Confirm = _Confirm

    class _FakeFile:
        def __init__(self, name):
            self.name = str(name)
            self.data = b""

        def write(self, b):
            self.data += b

        def __enter__(self):
            return self

        def __exit__(self, *a):
            PluginEnv.written[self.name] = self.data.decode("utf-8")
            PluginEnv.write_log.append(self.name)
            return False

    def fake_open(name, mode="r", *a, **k):
        if mode == "bw":
            if PluginEnv.capture_writes:
                return _FakeFile(name)
            PluginEnv.write_log.append(str(name))  # real write (project files are restored at the next session start)
        return builtins.open(name, mode, *a, **k)

    RC.open = fake_open


class StubMark:
    def __init__(self, name, args=(), kwargs=None):
        self.name = name
        self.args = tuple(args)
        self.kwargs = dict(kwargs or {})


class StubNode:
    """what a pytest Function node offers for marks: own marks vs. marks inherited from class / module (pytestmark)"""

    def __init__(self, name, own, inherited):
        self.name = name
        self.own_markers = list(own)
        self._inherited = list(inherited)
        self.keywords = {name: True}
        for m in list(own) + list(inherited):
            self.keywords[m.name] = m

    def iter_markers(self, name=None):
        for m in self.own_markers + self._inherited:
            if name is None or m.name == name:
                yield m

    def get_closest_marker(self, name, default=None):
        for m in self.iter_markers(name):
            return m
        return default


class StubRequest:
    def __init__(self, node):
        self.node = node
        self.keywords = node.keywords


class PluginResult:
    def __init__(self):
        self.usage_error = None
        self.active = None
        self.update_flags = set()
        self.outcomes = {}  # (file, test) -> "passed" | "failed" | "error"
        self.exceptions = {}
        self.written = {}  # file name -> new text
        self.finish_error = None
        self.printed = []
        self.ns = {}
        self.paths = {}
        self.texts = {}
        self.root = None
        self.pending = {}
        self.storage = []


def project_dir(files: Dict[str, str], extra: Optional[Dict[str, str]] = None) -> pathlib.Path:
    with NoTracing():
        h = hashlib.sha1(repr(sorted((k, str(v)) for k, v in {**files, **(extra or {})}.items())).encode("utf-8", "surrogatepass")).hexdigest()[:14]
        d = pathlib.Path(scratch_dir()) / "proj" / h
        if not d.exists():
            d.mkdir(parents=True)
            for name, text in {**files, **(extra or {})}.items():
                p = d / name
                p.parent.mkdir(parents=True, exist_ok=True)
                p.write_bytes(str(text).encode("utf-8"))
        return d


def make_config(root, cli, nproc=None):
    c = types.SimpleNamespace()
    c.rootpath = root
    c.option = types.SimpleNamespace(inline_snapshot=cli)
    if nproc == "worker":
        # what pytest-xdist gives its worker processes: numprocesses reset to None, workerinput present
        c.option.numprocesses = None
        c.workerinput = {"workerid": "gw0"}
    elif nproc != "absent":
        c.option.numprocesses = nproc
    c.pluginmanager = _PM()
    return c


def plugin_session(files, *, cli=None, env_flags=None, tty=False, ci_var=None, pycharm=False, nproc=None, answers=(),
                   xfail=(), pyproject=None, extra_globals=None, body_hook=None, storage_files=None, shortcut_args=None, finish=True, per_file_globals=None, cwd_outside=False) -> PluginResult:
    """D-plugin: real pytest_configure -> (real autouse fixture around every test_* function) -> real
    pytest_sessionfinish, with stub config/request/session objects.  File writes are captured in memory."""
    import pytest

    import inline_snapshot.pytest_plugin as P
    from inline_snapshot._global_state import state

    install_plugin_shims()
    fresh_process_state()
    res = PluginResult()
    if isinstance(files, str):
        files = {"test_a.py": files}
    files = {k: prepare(v) for k, v in files.items()}
    extra = {"pyproject.toml": pyproject} if pyproject is not None else None
    root = project_dir(files, extra)
    res.root = root
    res.texts = dict(files)
    PluginEnv.answers = list(answers)
    PluginEnv.asked = []
    PluginEnv.written = {}
    PluginEnv.write_log = []
    NullConsole.is_terminal = tty
    NullConsole.printed = []
    saved_env = dict(os.environ)
    with NoTracing():
        for v in ("CI", "bamboo.buildKey", "BUILD_ID", "BUILD_NUMBER", "BUILDKITE", "CIRCLECI", "CONTINUOUS_INTEGRATION", "GITHUB_ACTIONS",
                  "HUDSON_URL", "JENKINS_URL", "TEAMCITY_VERSION", "TRAVIS", "PYCHARM_HOSTED", "INLINE_SNAPSHOT_DEFAULT_FLAGS"):
            os.environ.pop(v, None)
        if ci_var:
            os.environ[ci_var] = "1"
        if pycharm:
            os.environ["PYCHARM_HOSTED"] = "1"
        if env_flags is not None:
            os.environ["INLINE_SNAPSHOT_DEFAULT_FLAGS"] = env_flags
    if shortcut_args is not None:
        # the real pytest_addoption registers the shortcuts of pyproject.toml; a real argparse parser resolves them
        import argparse

        import inline_snapshot.pytest_plugin as P0

        ap = argparse.ArgumentParser()

        class _Group:
            def addoption(self, *names, **attrs):
                ap.add_argument(*names, **attrs)

        class _Parser:
            def getgroup(self, name):
                return _Group()

        cwd0 = os.getcwd()
        os.chdir(root)
        try:
            P0.pytest_addoption(_Parser(), None)
        finally:
            os.chdir(cwd0)
        cli = ap.parse_args(list(shortcut_args)).inline_snapshot
    cfg = make_config(root, cli, nproc)
    cwd = os.getcwd()
    if cwd_outside:
        # pytest started from another directory: `cd elsewhere; pytest ../project/test_a.py`
        with NoTracing():
            (root.parent / (root.name + "_elsewhere")).mkdir(exist_ok=True)
        os.chdir(root.parent / (root.name + "_elsewhere"))
    else:
        os.chdir(root)
    with NoTracing():
        import shutil

        shutil.rmtree(root / ".inline-snapshot", ignore_errors=True)  # project dirs are reused across paths
        for name_, text_ in files.items():  # ... and so are the files: restore what an earlier path rewrote
            p_ = root / name_
            b_ = str(text_).encode("utf-8")
            if p_.read_bytes() != b_:
                p_.write_bytes(b_)
        if storage_files:
            d = root / ".inline-snapshot" / "external"
            d.mkdir(parents=True)
            for n_, data in storage_files.items():
                (d / n_).write_bytes(data)
    configured = False
    registered: List[str] = []
    try:
        try:
            P.pytest_configure(cfg)
            configured = True
        except pytest.UsageError as e:
            res.usage_error = str(e)
            from inline_snapshot._global_state import leave_snapshot_context

            leave_snapshot_context()
            return res
        st = state()
        res.active = st.active
        res.update_flags = set(st.update_flags.to_set())
        try:
            for fname, text in files.items():
                if not fname.endswith(".py"):
                    continue
                path = root / fname
                res.paths[fname] = path
                # a real module object in sys.modules (inspect.getmodule must find it: files_with_snapshots)
                with NoTracing():
                    modname = "verif_" + root.name + "_" + fname[:-3].replace("/", "_")
                    module = types.ModuleType(modname)
                    module.__file__ = str(path)
                    sys.modules[modname] = module
                    registered.append(modname)
                g = module.__dict__
                g.update(W.ns)
                if extra_globals:
                    g.update(extra_globals)
                if per_file_globals and fname in per_file_globals:
                    g.update(per_file_globals[fname])
                try:
                    exec(compile(text[1:] if text[:1] == "\ufeff" else text, str(path), "exec"), g)
                except Exception as e:
                    res.outcomes[(fname, "<module>")] = "error"
                    res.exceptions[(fname, "<module>")] = e
                    continue
                res.ns[fname] = g
                for k, v in list(g.items()):
                    if not _is_test(k, v):
                        continue
                    # xfail: names of marked tests, or {name: ("own"|"inherited", args)}
                    own, inh = [], []
                    if isinstance(xfail, dict):
                        if k in xfail:
                            level, margs = xfail[k]
                            (own if level == "own" else inh).append(StubMark("xfail", margs))
                    elif k in xfail:
                        own.append(StubMark("xfail"))
                    req = StubRequest(StubNode(k, own, inh))
                    fx = P.snapshot_check._get_wrapped_function()(req)
                    next(fx)
                    outcome = "passed"
                    try:
                        v()
                    except Exception as e:
                        outcome = "failed"
                        res.exceptions[(fname, k)] = e
                    try:
                        next(fx)
                    except StopIteration:
                        pass
                    except BaseException as e:
                        if type(e).__name__ == "Failed":
                            if outcome == "passed":
                                outcome = "error"
                            res.exceptions.setdefault((fname, k), e)
                        else:
                            raise
                    res.outcomes[(fname, k)] = outcome
            if body_hook is not None:
                body_hook(res)
        finally:
            sess = types.SimpleNamespace(config=cfg)
            if finish:
                try:
                    P.pytest_sessionfinish(sess, 0)
                except Exception as e:
                    res.finish_error = e
            else:
                from inline_snapshot._global_state import leave_snapshot_context as _leave

                _leave()
    finally:
        os.chdir(cwd)
        with NoTracing():
            os.environ.clear()
            os.environ.update(saved_env)
            for m_ in registered:
                sys.modules.pop(m_, None)
            d_ = root / ".inline-snapshot" / "external"
            res.storage = sorted(p.name for p in d_.iterdir() if p.name != ".gitignore") if d_.exists() else []
    with NoTracing():
        for name, path in res.paths.items():
            if str(path) in PluginEnv.written:
                res.written[name] = PluginEnv.written[str(path)]
            else:
                now = path.read_bytes().decode("utf-8")
                if now != str(files[name]):
                    res.written[name] = now
        res.write_log = list(PluginEnv.write_log)
    res.printed = list(NullConsole.printed)
    return res


def text_after(res: PluginResult, name="test_a.py") -> str:
    return res.written.get(name, res.texts[name])


def passes_when_disabled(text: str, extra_globals=None, tests=None):
    """Run the (rewritten) module with inline-snapshot *inactive* (snapshot(v) returns v, snapshot() raises):
    True iff every test passes.  Names introduced by the rendering stub are bound to their symbolic values, so
    'the rewritten test passes' is decided by the solver for all values on the path."""
    from inline_snapshot._global_state import state

    assert not state().active
    path = materialize(text, "d")
    g = {"__name__": "verif_disabled", "__file__": str(path)}
    g.update(W.ns)
    g.update(W.ph)
    if extra_globals:
        g.update(extra_globals)
    exec(compile(text, str(path), "exec"), g)
    for k, v in list(g.items()):
        if _is_test(k, v) and (tests is None or k in tests):
            try:
                v()
            except Exception:
                return False
    return True


def prewarm(*calls):
    """Run the given thunks once concretely (fills the executing / asttokens / black caches so that the symbolic
    paths are deterministic).  Results are ignored and nothing may escape: the conditions decide, not the warm-up."""
    W.concrete = True
    try:
        for c in calls:
            try:
                c()
            except Exception:
                pass
    finally:
        W.concrete = False


# ---------------------------------------------------------------- R1: the real plugin in a real pytest process


def real_pytest(files: Dict[str, str], args: List[str], env: Optional[Dict[str, str]] = None, stdin: bytes = b"", storage_files=None, timeout=120):
    """Run `python -m pytest <args>` in a fresh temp project with the *unmodified* plugin; returns (returncode, stdout,
    files after the run, storage listing).  No stub of any kind is involved."""
    import shutil
    import subprocess
    import tempfile

    d = pathlib.Path(tempfile.mkdtemp(prefix="r1-", dir=scratch_dir()))
    try:
        for name, text in files.items():
            p = d / name
            p.parent.mkdir(parents=True, exist_ok=True)
            p.write_bytes(text.encode("utf-8"))
        if storage_files:
            sd = d / ".inline-snapshot" / "external"
            sd.mkdir(parents=True)
            for n_, data in storage_files.items():
                (sd / n_).write_bytes(data)
        e = {k: v for k, v in os.environ.items() if k not in ("CI", "GITHUB_ACTIONS", "INLINE_SNAPSHOT_DEFAULT_FLAGS", "PYTEST_CURRENT_TEST", "PYTHONHASHSEED")}
        e["TERM"] = "unknown"
        e["COLUMNS"] = "100"
        from vlib.common import REPO_SRC

        e["PYTHONPATH"] = REPO_SRC
        if env:
            e.update(env)
        p = subprocess.run([sys.executable, "-m", "pytest", "-p", "no:cacheprovider", "-q", *args], cwd=d, env=e, input=stdin, capture_output=True, timeout=timeout)
        after = {name: (d / name).read_bytes().decode("utf-8") for name in files}
        sd = d / ".inline-snapshot" / "external"
        storage = sorted(x.name for x in sd.iterdir() if x.name != ".gitignore") if sd.exists() else []
        return p.returncode, p.stdout.decode("utf-8", "replace") + p.stderr.decode("utf-8", "replace"), after, storage
    finally:
        shutil.rmtree(d, ignore_errors=True)
