"""Orchestrator: ./check <ID> [--tier quick|thorough] [--replay DIR] [--only REGEX] [--jobs N]

Exit codes (DESIGN.md section 2): 0 held on everything explored (known findings printed), 1 reproduced violation,
2 nothing could be decided, 3 harness error (non-reproducing counterexample, vacuous harness).
"""
from __future__ import annotations

import argparse
import concurrent.futures as cf
import hashlib
import importlib
import json
import os
import random
import re
import shutil
import subprocess
import sys
import tempfile
import time

ROOT = os.path.dirname(os.path.dirname(os.path.abspath(__file__)))
PY = sys.executable

HARNESS = {
    # property id -> harness module
}


def harness_module(pid):
    return f"harness.{pid.lower()}"


def run_worker(modname, tier, cond_name, timeout_wall, scratch, extra_env=None, mode="check", payload=None):
    out = os.path.join(scratch, "res_" + hashlib.sha1((mode + cond_name + str(payload)).encode()).hexdigest()[:12] + ".json")
    env = dict(os.environ)
    env["VERIF_SCRATCH"] = os.path.join(scratch, "w_" + hashlib.sha1((mode + cond_name + str(payload)).encode()).hexdigest()[:12])  # private to this worker
    env["PYTHONPATH"] = ROOT + os.pathsep + env.get("PYTHONPATH", "")
    if os.environ.get("VERIF_REPO"):
        env["PYTHONPATH"] = os.environ["VERIF_REPO"] + "/src" + os.pathsep + env["PYTHONPATH"]
    env["PYTHONHASHSEED"] = env.get("PYTHONHASHSEED", "0")
    env.pop("CI", None)
    env.pop("GITHUB_ACTIONS", None)
    if extra_env:
        env.update(extra_env)
    if mode == "check":
        cmd = [PY, "-m", "vlib.worker", modname, tier, cond_name, out]
    else:
        cmd = [PY, "-m", "vlib.replay", modname, tier, cond_name, json.dumps(payload), out]
    t0 = time.time()
    try:
        p = subprocess.run(cmd, cwd=ROOT, env=env, capture_output=True, text=True, timeout=timeout_wall)
        tail = (p.stdout[-1500:] + "\n" + p.stderr[-3000:])
    except subprocess.TimeoutExpired as e:
        return {"cond": cond_name, "status": "unknown", "why": f"wall timeout {timeout_wall}s", "wall_s": round(time.time() - t0, 1)}
    if os.path.exists(out):
        try:
            with open(out) as f:
                r = json.load(f)
            os.unlink(out)
            return r
        except Exception as e:
            pass
    return {"cond": cond_name, "status": "error", "error": "worker produced no result: rc=%s\n%s" % (p.returncode, tail), "wall_s": round(time.time() - t0, 1)}


def load_known_findings(pid):
    path = os.path.join(ROOT, "known_findings.json")
    if not os.path.exists(path):
        return []
    with open(path) as f:
        data = json.load(f)
    return [e for e in data.get("findings", []) if e.get("property") == pid]


def main(argv=None):
    ap = argparse.ArgumentParser()
    ap.add_argument("pid")
    ap.add_argument("--tier", default=os.environ.get("VERIF_TIER", "quick"))
    ap.add_argument("--replay", default=None)
    ap.add_argument("--only", default=None)
    ap.add_argument("--jobs", type=int, default=int(os.environ.get("VERIF_JOBS", "0")) or (os.cpu_count() or 4))
    ap.add_argument("--no-evidence", action="store_true")
    args = ap.parse_args(argv)
    pid = args.pid.upper()
    tier = args.tier if args.tier in ("quick", "thorough") else "quick"
    seed = int(os.environ.get("VERIF_SEED", "0") or 0)
    t0 = time.time()
    sys.path.insert(0, ROOT)
    if os.environ.get("VERIF_REPO"):
        sys.path.insert(0, os.environ["VERIF_REPO"] + "/src")
    modname = harness_module(pid)
    scratch = tempfile.mkdtemp(prefix=f"verif-{pid}-")
    os.environ["VERIF_SCRATCH"] = scratch
    os.environ.setdefault("PYTHONHASHSEED", "0")
    try:
        return _main(args, pid, tier, seed, t0, modname, scratch)
    finally:
        shutil.rmtree(scratch, ignore_errors=True)


def _main(args, pid, tier, seed, t0, modname, scratch):
    if args.replay:
        with open(os.path.join(args.replay, "replay.json")) as f:
            rp = json.load(f)
        r = run_worker(modname, rp.get("tier", tier), rp["cond"], 900, scratch, mode="replay", payload=rp["cex"])
        print(json.dumps(r, indent=1)[:6000])
        if r.get("violated"):
            print(f"VIOLATION property={pid} replay={args.replay}")
            return 1
        print("replay: no violation")
        return 0

    mod = importlib.import_module(modname)
    findings = load_known_findings(pid)
    open_findings = [f for f in findings if f.get("status") == "open"]
    active_kf = []
    kf_lines = []
    stale = []
    # 1. replay the witnesses of open known findings on the current tree
    for kf in open_findings:
        r = run_worker(modname, tier, kf["cond"], 900, scratch, mode="replay", payload=kf["witness"])
        if r.get("violated"):
            active_kf.append(kf["id"])
            kf_lines.append(f"KNOWN-FINDING: property={pid} {kf['what']}")
        else:
            stale.append({"id": kf["id"], "result": r})
    for l in kf_lines:
        print(l)
    for s in stale:
        print(f"note: known finding {s['id']} does not reproduce on this tree (not suppressed, region searched again)")
    os.environ["VERIF_KF_ACTIVE"] = ",".join(active_kf)

    conds = mod.conditions(tier)
    if args.only:
        conds = [c for c in conds if re.search(args.only, c.name)]
    order = list(conds)
    random.Random(seed).shuffle(order)
    order.sort(key=lambda c: -c.timeout)  # long ones first
    results = {}
    extra_env = {"VERIF_KF_ACTIVE": ",".join(active_kf)}
    with cf.ThreadPoolExecutor(max_workers=args.jobs) as ex:
        futs = {ex.submit(run_worker, modname, tier, c.name, c.timeout * 1.6 + 120, scratch, extra_env): c for c in order}
        for fu in cf.as_completed(futs):
            c = futs[fu]
            r = fu.result()
            results[c.name] = r
            print(f"  [{r.get('status'):9s}] {c.name} paths={r.get('paths')} wall={r.get('wall_s')}s {r.get('why', '')}", flush=True)

    violations = []
    harness_errors = []
    undecided = []
    confirmed = 0
    replays = []
    for c in conds:
        r = results[c.name]
        st = r.get("status")
        if c.twin:
            if st != "refuted":
                harness_errors.append(f"reachability twin {c.name} not violated ({st} {r.get('why', '')} {r.get('error', '')[-300:]})")
            continue
        if st == "confirmed":
            confirmed += 1
        elif st == "refuted":
            cex = r.get("cex")
            if cex is None:
                harness_errors.append(f"{c.name}: counterexample could not be parsed: {r.get('cex_message')}")
                continue
            rr = run_worker(modname, tier, c.name, 900, scratch, extra_env, mode="replay", payload=cex)
            replays.append({"cond": c.name, "cex": cex, "result": {k: rr.get(k) for k in ("violated", "detail", "status", "error")}})
            if rr.get("violated"):
                h = hashlib.sha1(json.dumps([c.name, cex], sort_keys=True).encode()).hexdigest()[:10]
                d = os.path.join(ROOT, "replays", pid, f"{c.name}-{h}")
                os.makedirs(d, exist_ok=True)
                with open(os.path.join(d, "replay.json"), "w") as f:
                    json.dump({"property": pid, "cond": c.name, "tier": tier, "cex": cex, "message": r.get("cex_message"),
                               "replay_result": rr, "cmd": f"./check {pid} --replay {d}"}, f, indent=1, default=str)
                for name, content in (rr.get("files") or {}).items():
                    p = os.path.join(d, name)
                    os.makedirs(os.path.dirname(p), exist_ok=True)
                    with open(p, "w") as f:
                        f.write(content)
                violations.append((c.name, d, cex, rr.get("detail")))
            else:
                harness_errors.append(f"{c.name}: counterexample {cex} did not reproduce concretely: {rr.get('detail') or rr.get('error')}")
        elif st == "unknown":
            undecided.append({"cond": c.name, "why": r.get("why"), "paths": r.get("paths")})
        else:
            harness_errors.append(f"{c.name}: worker error: {(r.get('error') or '')[-1500:]}")

    # evidence
    total_paths = sum(int(r.get("paths") or 0) for r in results.values())
    nontrivial = set()
    samples = []
    functions = set()
    sq = 0
    ss = 0.0
    for c in conds:
        r = results[c.name]
        pl = r.get("path_log") or {}
        nontrivial.update(f"{c.group or c.name}:{h}" for h in pl.get("nontrivial", []))
        for s in pl.get("samples", [])[:1]:
            if len(samples) < 8:
                samples.append({"condition": c.name, **s})
        functions.update(r.get("functions") or [])
        sq += int((r.get("solver") or {}).get("solver_queries", 0))
        ss += float((r.get("solver") or {}).get("solver_s", 0.0))
    meta = getattr(mod, "META", {})
    if not samples:
        samples = [{"condition": c.name, "bounds": c.bounds} for c in conds[:3]]
    ev = {
        "property_id": pid,
        "tier": tier,
        "seed": seed,
        "level": "model_checking",
        "coverage": {
            "evaluations": max(total_paths, 0),
            "distinct_nontrivial": len(nontrivial),
            "rule": meta.get("rule", "evaluations = execution paths explored symbolically by CrossHair/z3 over all conditions; "
                                     "a path is non-trivial when the harness logged a distinct concrete outcome signature "
                                     "(rewritten text / change set / verdict) that exercised the code under test; distinct = distinct signatures per condition group"),
            "samples": samples,
            "exhaustive": False,
            "conditions": [
                {"name": c.name, "twin": c.twin, "decided_by": "contract-validation (concrete run, no solver)" if c.concrete else "solver", "bounds": c.bounds, "verdict": results[c.name].get("status"),
                 "paths": results[c.name].get("paths"), "solver_queries": (results[c.name].get("solver") or {}).get("solver_queries"),
                 "solver_s": round(float((results[c.name].get("solver") or {}).get("solver_s", 0.0)), 2),
                 "analysis_s": results[c.name].get("analysis_s"), "why": results[c.name].get("why")}
                for c in conds
            ],
            "conditions_total": len([c for c in conds if not c.twin]),
            "conditions_confirmed": confirmed,
            "undecided": undecided,
            "functions_encoded": sorted(functions),
            "solver_queries": sq,
            "solver_s": round(ss, 2),
            "bounds": meta.get("bounds", {}).get(tier, meta.get("bounds")),
            "outside_bounds": meta.get("outside"),
            "known_findings_seen": active_kf,
            "replays": replays,
            "harness_errors": harness_errors,
        },
        "assumptions": meta.get("assumptions", []),
        "wall_s": round(time.time() - t0, 1),
        "violations": len(violations),
    }
    if not args.no_evidence and not args.only:
        os.makedirs(os.path.join(ROOT, "evidence"), exist_ok=True)
        with open(os.path.join(ROOT, "evidence", f"{pid}.json"), "w") as f:
            json.dump(ev, f, indent=1, default=str)

    print(f"{pid} tier={tier}: {confirmed}/{len([c for c in conds if not c.twin])} conditions confirmed, "
          f"{len(undecided)} undecided, {len(violations)} violations, {len(harness_errors)} harness errors, "
          f"paths={total_paths} solver_queries={sq} solver_s={ss:.1f} wall={time.time() - t0:.0f}s")
    for u in undecided:
        print(f"INCONCLUSIVE: property={pid} condition={u['cond']} ({u['why']}) - not claimed, listed in evidence")
    for e in harness_errors:
        print("HARNESS-ERROR:", e)
    if violations:
        for name, d, cex, detail in violations:
            print(f"  violation in {name}: {cex} :: {str(detail)[:500]}")
            print(f"VIOLATION property={pid} replay={d}")
        return 1
    if harness_errors:
        return 3
    if confirmed == 0:
        return 2
    return 0


if __name__ == "__main__":
    sys.exit(main())
