"""Replay one counterexample concretely (no CrossHair, real repr): python -m vlib.replay <module> <tier> <cond> <json cex> <out>"""
from __future__ import annotations

import importlib
import json
import os
import sys
import traceback


def main(argv):
    modname, tier, condname, payload, out = argv[:5]
    cex = json.loads(payload)
    res = {"cond": condname, "status": "replayed", "violated": False}
    try:
        mod = importlib.import_module(modname)
        if hasattr(mod, "replay"):
            r = mod.replay(tier, condname, cex)
        else:
            conds = {c.name: c for c in mod.conditions(tier)}
            fn = conds[condname].fn
            from vlib.common import generic_replay

            r = generic_replay(fn, cex)
        res.update(r)
    except BaseException as e:  # noqa
        res["status"] = "error"
        res["error"] = "".join(traceback.format_exception(type(e), e, e.__traceback__))[-4000:]
    with open(out, "w") as f:
        json.dump(res, f, default=str)
    print(json.dumps(res, default=str)[:3000])
    sys.stdout.flush()
    os._exit(0)


if __name__ == "__main__":
    main(sys.argv[1:])
