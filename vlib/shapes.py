"""Tiny shape language for snapshot arguments and observed values.

A spec is a nested tuple:
  ("leaf", name)                       a name bound to a (symbolic) int in the namespace
  ("const", source)                    concrete source text (evaluated in the namespace)
  ("list", [spec...]) ("tuple", [spec...])
  ("dict", [(key_source, spec)...])    concrete keys (hashing a symbolic int would realise it)
  ("call", func_name, [spec...], [(kw, spec)...])
  ("wrap", prefix, spec, suffix)       e.g. Is( ... )
"""
from __future__ import annotations


def src(spec) -> str:
    k = spec[0]
    if k == "leaf":
        return spec[1]
    if k == "const":
        return spec[1]
    if k == "list":
        return "[" + ", ".join(src(s) for s in spec[1]) + "]"
    if k == "tuple":
        if len(spec[1]) == 1:
            return "(" + src(spec[1][0]) + ",)"
        return "(" + ", ".join(src(s) for s in spec[1]) + ")"
    if k == "dict":
        return "{" + ", ".join(f"{key}: {src(s)}" for key, s in spec[1]) + "}"
    if k == "call":
        args = [src(s) for s in spec[2]] + [f"{kw}={src(s)}" for kw, s in spec[3]]
        return f"{spec[1]}(" + ", ".join(args) + ")"
    if k == "wrap":
        return spec[1] + src(spec[2]) + spec[3]
    raise ValueError(spec)


def val(spec, ns):
    return eval(src(spec), dict(ns))


def leaves(spec):
    k = spec[0]
    if k == "leaf":
        return [spec[1]]
    if k == "const":
        return []
    if k in ("list", "tuple"):
        return [l for s in spec[1] for l in leaves(s)]
    if k == "dict":
        return [l for _, s in spec[1] for l in leaves(s)]
    if k == "call":
        return [l for s in spec[2] for l in leaves(s)] + [l for _, s in spec[3] for l in leaves(s)]
    if k == "wrap":
        return leaves(spec[2])
    raise ValueError(spec)


def L(*names):
    return ("list", [("leaf", n) if isinstance(n, str) else n for n in names])


def T(*names):
    return ("tuple", [("leaf", n) if isinstance(n, str) else n for n in names])


def D(*pairs):
    return ("dict", [(k, ("leaf", v) if isinstance(v, str) else v) for k, v in pairs])


def C(fn, *args, **kw):
    return ("call", fn, [("leaf", a) if isinstance(a, str) else a for a in args],
            [(k, ("leaf", v) if isinstance(v, str) else v) for k, v in kw.items()])


def leaf(n):
    return ("leaf", n)
