"""Engine tuning and instrumentation of CrossHair (never of the repo).

* no short-circuiting of contract-bearing callees, no premature realisation of ints
  (completeness heuristics only, soundness untouched) - see DESIGN.md section 1.A
* count solver queries and solver seconds (z3.Solver.check)
* record which /repo/src functions ran while a condition was analysed (sys.monitoring PY_START)
"""
from __future__ import annotations

import sys
import time

STATS = {"solver_queries": 0, "solver_s": 0.0, "unknown": 0}
TRACED = set()
_installed = False


def install():
    global _installed
    if _installed:
        return
    _installed = True
    import crosshair.core as core
    import crosshair.statespace as ss
    import z3

    core.consider_shortcircuit = lambda *a, **k: None
    _fp = ss.StateSpace.fork_parallel

    def fork_parallel(self, false_probability, desc=""):
        if desc.startswith("premature realize"):
            return False
        return _fp(self, false_probability, desc)

    ss.StateSpace.fork_parallel = fork_parallel

    # contract *enforcement* on callees (a tracing module that wraps every call and every class construction to
    # look for PEP-316 contracts on the callee) is switched off: no function of /repo or of its dependencies
    # carries such a contract, so it can never fire; it costs a factor 6 of analysis time.
    import crosshair.enforce as enforce

    enforce.EnforcedConditions.trace_call = lambda self, frame, fn, binding_target: None

    _check = z3.Solver.check

    def check(self, *a):
        t = time.perf_counter()
        r = _check(self, *a)
        STATS["solver_s"] += time.perf_counter() - t
        STATS["solver_queries"] += 1
        if str(r) == "unknown":
            STATS["unknown"] += 1
        return r

    z3.Solver.check = check


def trace_repo_functions(prefix=None):
    """Record qualified names of repo functions that start executing (any thread of this process)."""
    if prefix is None:
        from vlib.common import REPO_SRC

        prefix = REPO_SRC + "/"
    mon = getattr(sys, "monitoring", None)
    if mon is None:
        return
    tool = 2
    try:
        mon.use_tool_id(tool, "verif-cov")
    except ValueError:
        return

    def on_start(code, offset):
        fn = code.co_filename
        if fn.startswith(prefix):
            TRACED.add(fn[len(prefix):] + ":" + code.co_qualname)
        return mon.DISABLE

    mon.register_callback(tool, mon.events.PY_START, on_start)
    mon.set_events(tool, mon.events.PY_START)
