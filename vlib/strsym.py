"""Engine B (strsym): bounded symbolic strings as vectors of z3 Int code points, concrete length per path.

The repo's own string functions (taken from /repo's current source, a handful of AST node kinds rewritten into runtime
calls) are *executed* on SymStr values; a branch on a symbolic boolean forks the path (re-execution with a decision
prefix, both sides checked for feasibility by z3).  Path feasibility and the final obligation are z3 queries in linear
integer arithmetic over code points 0 <= c < 0x110000.  See DESIGN.md section 1.B."""
import ast, inspect, textwrap, time, sys, unicodedata
import z3

class Abort(Exception): pass

class Ctx:
    def __init__(self):
        self.solver = z3.Solver(); self.decisions = []; self.pos = 0; self.queries = 0; self.qtime = 0.0
    def check(self, *extra):
        t = time.time(); self.queries += 1
        r = self.solver.check(*extra); self.qtime += time.time() - t
        return r
CTX = None

def branch(e):
    """return a concrete bool for z3 BoolRef e on the current path"""
    if isinstance(e, bool): return e
    e = z3.simplify(e)
    if z3.is_true(e): return True
    if z3.is_false(e): return False
    c = CTX
    if c.pos < len(c.decisions):
        d = c.decisions[c.pos][0]
    else:
        can_t = c.check(e) == z3.sat
        can_f = c.check(z3.Not(e)) == z3.sat
        if can_t and can_f: d = True; c.decisions.append([True, True])   # [choice, other side pending]
        elif can_t: d = True; c.decisions.append([True, False])
        elif can_f: d = False; c.decisions.append([False, False])
        else: raise Abort("infeasible path")
    c.pos += 1
    c.solver.add(e if d else z3.Not(e))
    return d

class SB:
    def __init__(self, e): self.e = e
    def __bool__(self): return branch(self.e)
    def __lt__(self, o):  # False < True
        oe = o.e if isinstance(o, SB) else o
        return branch(z3.And(z3.Not(self.e), oe))
    def __eq__(self, o):
        oe = o.e if isinstance(o, SB) else o
        return SB(self.e == oe)

class SI:
    """symbolic int (result of str.count): comparisons give symbolic booleans that fork when tested"""
    def __init__(self, e): self.e = e
    @staticmethod
    def _v(o): return o.e if isinstance(o, SI) else o
    def __ge__(self, o): return SB(self.e >= SI._v(o))
    def __gt__(self, o): return SB(self.e > SI._v(o))
    def __le__(self, o): return SB(self.e <= SI._v(o))
    def __lt__(self, o): return SB(self.e < SI._v(o))
    def __eq__(self, o): return SB(self.e == SI._v(o))
    def __ne__(self, o): return SB(self.e != SI._v(o))
    def __add__(self, o): return SI(self.e + SI._v(o))
    __radd__ = __add__
    def __hash__(self): return id(self)


def _e(x): return x if not isinstance(x, int) or isinstance(x, bool) else z3.IntVal(x)
def ceq(a, b):
    if isinstance(a, int) and isinstance(b, int): return a == b
    return _e(a) == _e(b)
def AND(xs):
    xs = [x for x in xs if x is not True]
    if any(x is False for x in xs): return False
    return True if not xs else z3.And(*xs) if len(xs) > 1 else xs[0]
def OR(xs):
    xs = [x for x in xs if x is not False]
    if any(x is True for x in xs): return True
    return False if not xs else z3.Or(*xs) if len(xs) > 1 else xs[0]

def lift(s):
    return s if isinstance(s, SymStr) else SymStr([ord(c) for c in s])

_PR = None
def printable_ranges():
    global _PR
    if _PR is None:
        r = []; start = None
        for cp in range(0x110000 + 1):
            p = cp < 0x110000 and chr(cp).isprintable()
            if p and start is None: start = cp
            if not p and start is not None: r.append((start, cp - 1)); start = None
        _PR = r
    return _PR

HEXD = lambda d: z3.If(d < 10, 48 + d, 87 + d)
_SPACES = None


def space_term(c):
    """str.isspace of one (symbolic) code point - exact table from the running interpreter"""
    global _SPACES
    if _SPACES is None:
        _SPACES = [cp for cp in range(0x110000) if chr(cp).isspace()]
    if isinstance(c, int):
        return c in _SPACES
    return z3.Or(*[c == cp for cp in _SPACES])


EXACT_LIMIT = 0xA0
_PR_LOW = None
_PR_FREE = {}


def printable_term(c):
    """str.isprintable of a symbolic code point: the exact table up to EXACT_LIMIT (taken from the running
    interpreter), above it an unconstrained boolean per character - a sound over-approximation: the repo code may
    escape or not escape any higher code point, a superset of its real behaviours."""
    global _PR_LOW
    if _PR_LOW is None:
        r = []
        start = None
        for cp in range(EXACT_LIMIT + 2):
            p = cp <= EXACT_LIMIT and chr(cp).isprintable()
            if p and start is None:
                start = cp
            if not p and start is not None:
                r.append((start, cp - 1))
                start = None
        _PR_LOW = r
    key = c.get_id()
    if key not in _PR_FREE:
        _PR_FREE[key] = z3.Bool(f"printable_{c}")
    free = _PR_FREE[key]
    low = z3.Or(*[z3.And(lo <= c, c <= hi) for lo, hi in _PR_LOW])
    return z3.If(c <= EXACT_LIMIT, low, free)


class SymStr:
    def __init__(self, chars): self.chars = list(chars)
    def __len__(self): return len(self.chars)
    def __iter__(self): return iter([SymStr([c]) for c in self.chars])
    def __getitem__(self, i):
        if isinstance(i, slice): return SymStr(self.chars[i])
        return SymStr([self.chars[i]])
    def __add__(self, o): return SymStr(self.chars + lift(o).chars)
    def __radd__(self, o): return SymStr(lift(o).chars + self.chars)
    def __eq__(self, o):
        o = lift(o)
        if len(o) != len(self): return SB(False) if False else False
        r = AND([ceq(a, b) for a, b in zip(self.chars, o.chars)])
        return r if isinstance(r, bool) else SB(r)
    def __ne__(self, o):
        r = self.__eq__(o)
        return (not r) if isinstance(r, bool) else SB(z3.Not(r.e))
    def __hash__(self): return id(self)
    def _match_at(self, i, sub):
        if i + len(sub) > len(self): return False
        return AND([ceq(self.chars[i + k], sub.chars[k]) for k in range(len(sub))])
    def __contains__(self, sub):
        sub = lift(sub)
        if len(sub) == 0: return True
        return branch(OR([self._match_at(i, sub) for i in range(len(self) - len(sub) + 1)]))
    def startswith(self, p): return branch(self._match_at(0, lift(p)))
    def endswith(self, p):
        p = lift(p)
        return len(p) <= len(self) and branch(self._match_at(len(self) - len(p), p))
    def count(self, sub):
        sub = lift(sub); assert len(sub) == 1
        terms = [ceq(c, sub.chars[0]) for c in self.chars]
        if all(isinstance(t, bool) for t in terms): return sum(terms)
        return SI(z3.Sum([z3.If(_e(t) if not isinstance(t, bool) else z3.BoolVal(t), 1, 0) for t in terms]))
    def replace(self, old, new):
        old = lift(old); new = lift(new); out = []; i = 0
        while i < len(self):
            if branch(self._match_at(i, old)): out += new.chars; i += len(old)
            else: out.append(self.chars[i]); i += 1
        return SymStr(out)
    def strip(self, chars=None):
        assert chars is None
        cs = list(self.chars)
        while cs and branch(space_term(cs[0])):
            cs = cs[1:]
        while cs and branch(space_term(cs[-1])):
            cs = cs[:-1]
        return SymStr(cs)

    def isprintable(self):
        conds = []
        for c in self.chars:
            if isinstance(c, int):
                conds.append(chr(c).isprintable())
            else:
                conds.append(printable_term(c))
        r = AND(conds)
        return r if isinstance(r, bool) else SB(r)
    def encode(self, enc):
        assert enc == "unicode_escape"
        out = []
        for c in self.chars:
            if isinstance(c, int): out += [ord(x) for x in chr(c).encode("unicode_escape").decode("ascii")]; continue
            if branch(c == 92): out += [92, 92]
            elif branch(c == 10): out += [92, 110]
            elif branch(c == 9): out += [92, 116]
            elif branch(c == 13): out += [92, 114]
            elif branch(z3.And(32 <= c, c < 127)): out.append(c)
            else:
                nd = 2 if branch(c < 256) else 4 if branch(c < 65536) else 8
                ds = [z3.Int(f"d{k}_{c}") for k in range(nd)]           # little endian hex digits, linear definition
                for d in ds: CTX.solver.add(0 <= d, d < 16)
                CTX.solver.add(c == z3.Sum([d * (16 ** k) for k, d in enumerate(ds)]))
                out += [92, {2: 120, 4: 117, 8: 85}[nd]] + [HEXD(d) for d in reversed(ds)]
        return SymBytes(out)
    def concrete(self, model):
        def val(c):
            if isinstance(c, int): return c
            if model is None: return z3.simplify(c).as_long()
            return model.eval(c, model_completion=True).as_long()
        return "".join(chr(val(c)) for c in self.chars)

class SymBytes:
    def __init__(self, b): self.b = b
    def decode(self, enc): assert enc == "ascii"; return SymStr(self.b)

# runtime helpers used by rewritten code
def rt_contains(container, item, negate=False):
    if isinstance(container, SymStr) or isinstance(item, SymStr):
        r = lift(container).__contains__(item)
    else:
        r = item in container
    return (not r) if negate else r
def rt_method(obj, name):
    if isinstance(obj, str) and name == "join":
        def join(it):
            parts = list(it)
            if not any(isinstance(p, SymStr) for p in parts): return obj.join(parts)
            out = []
            for k, p in enumerate(parts):
                if k: out += lift(obj).chars
                out += lift(p).chars
            return SymStr(out)
        return join
    return getattr(obj, name)
def rt_fstr(parts):
    out = SymStr([])
    for p in parts: out = out + (p if isinstance(p, (SymStr, str)) else format(p))
    return out

class Rewriter(ast.NodeTransformer):
    def visit_Compare(self, node):
        self.generic_visit(node)
        if len(node.ops) == 1 and isinstance(node.ops[0], (ast.In, ast.NotIn)):
            return ast.Call(ast.Name("rt_contains", ast.Load()), [node.comparators[0], node.left, ast.Constant(isinstance(node.ops[0], ast.NotIn))], [])
        return node
    def visit_Call(self, node):
        self.generic_visit(node)
        if isinstance(node.func, ast.Attribute):
            node.func = ast.Call(ast.Name("rt_method", ast.Load()), [node.func.value, ast.Constant(node.func.attr)], [])
        return node
    def visit_JoinedStr(self, node):
        self.generic_visit(node)
        parts = [v.value if isinstance(v, ast.FormattedValue) else v for v in node.values]
        return ast.Call(ast.Name("rt_fstr", ast.Load()), [ast.List(parts, ast.Load())], [])

def load(path, names, extra_ns=None):
    tree = ast.parse(open(path).read())
    body = [n for n in ast.walk(tree) if isinstance(n, ast.FunctionDef) and n.name in names]
    mod = ast.fix_missing_locations(Rewriter().visit(ast.Module(body, [])))
    ns = {"rt_contains": rt_contains, "rt_method": rt_method, "rt_fstr": rt_fstr}
    ns.update(extra_ns or {})
    exec(compile(mod, path, "exec"), ns)
    return ns

def explore(make_input, run, prop, max_paths=100000):
    """for all inputs: prop(run(input)) ; returns list of counterexample strings"""
    global CTX
    stats = dict(paths=0, queries=0, qtime=0.0, cex=[])
    decisions = []
    while True:
        CTX = Ctx(); CTX.decisions = decisions; CTX.pos = 0
        inp, constraints = make_input()
        for c in constraints: CTX.solver.add(c)
        try:
            out = run(inp)
            ok = prop(inp, out)      # z3 BoolRef / SB / bool
            okE = ok.e if isinstance(ok, SB) else ok
            if isinstance(okE, bool):
                bad = not okE
                if bad and CTX.check() == z3.sat: stats["cex"].append(inp.concrete(CTX.solver.model()))
            elif CTX.check(z3.Not(okE)) == z3.sat:
                stats["cex"].append(inp.concrete(CTX.solver.model()))
        except Abort:
            pass
        except AssertionError as ex:
            if CTX.check() == z3.sat: stats["cex"].append(("ASSERT", inp.concrete(CTX.solver.model())))
        stats["paths"] += 1; stats["queries"] += CTX.queries; stats["qtime"] += CTX.qtime
        decisions = CTX.decisions[:CTX.pos]
        while decisions and not decisions[-1][1]: decisions.pop()
        if not decisions or stats["paths"] >= max_paths: break
        decisions[-1] = [not decisions[-1][0], False]
    return stats
