"""Shared pieces of the verification runner: condition objects, generated PEP-316 functions, path log."""
from __future__ import annotations

import dataclasses
import hashlib
import json
import linecache
import os
import textwrap
from typing import Any, Callable, Dict, List, Optional


@dataclasses.dataclass
class Cond:
    """One CrossHair condition = one function with a PEP-316 contract, analysed in one worker process."""

    name: str
    fn: Callable
    timeout: float = 120.0  # per_condition_timeout handed to CrossHair (CPU seconds of analysis)
    twin: bool = False  # reachability twin: MUST be refuted (post is the negation / False)
    bounds: str = ""  # human readable bound of this condition
    group: str = ""  # evidence grouping
    per_path_timeout: float = 60.0
    custom: bool = False  # engine B: fn() runs its own solver loop and returns the worker result dict
    concrete: bool = False  # contract-validation item: fn() is called once, concretely (no solver); labelled as such in evidence


# the tree under verification: /repo, unless VERIF_REPO points to a scratch worktree (used only by bin/seed_check.sh to
# try a seeded change without touching /repo; registered checks never set it)
REPO = os.environ.get("VERIF_REPO", "/repo")
REPO_SRC = REPO + "/src"

_GEN_COUNT = 0


def mkfn(
    name: str,
    params: List[tuple],
    body: str,
    glb: Dict[str, Any],
    pre: Optional[List[str]] = None,
    post: str = "_",
    ret: str = "bool",
    raises: Optional[str] = None,
) -> Callable:
    """Create a function object with a PEP-316 docstring whose source CrossHair can read.

    params: [(name, "int"|"bool"|"str"), ...]; body: python source of the function body (may use glb names).
    The source is registered in linecache under a synthetic file name so inspect.getsource works.
    """
    global _GEN_COUNT
    _GEN_COUNT += 1
    sig = ", ".join(f"{n}: {t}" for n, t in params)
    doc = "".join(f"    pre: {p}\n" for p in (pre or []))
    if raises:
        doc += f"    raises: {raises}\n"
    doc += f"    post: {post}\n"
    src = f'def {name}({sig}) -> {ret}:\n    """\n{doc}    """\n' + textwrap.indent(textwrap.dedent(body).strip("\n"), "    ") + "\n"
    fname = f"<verif-gen-{_GEN_COUNT}-{name}>"
    linecache.cache[fname] = (len(src), None, src.splitlines(True), fname)
    ns = dict(glb)
    ns["__name__"] = glb.get("__name__", "verifgen")
    code = compile(src, fname, "exec")
    exec(code, ns)
    fn = ns[name]
    fn.__verif_src__ = src
    return fn


class PathLog:
    """Per-process log of what each explored path did (concrete signatures only)."""

    entries: List[str] = []
    nontrivial: set = set()
    samples: List[dict] = []
    traced_functions: set = set()

    @classmethod
    def record(cls, signature: str, nontrivial: bool = True, sample: Optional[dict] = None):
        from crosshair.tracers import NoTracing

        with NoTracing():
            h = hashlib.sha1(signature.encode("utf-8", "replace")).hexdigest()[:16]
            cls.entries.append(h)
            if nontrivial:
                if h not in cls.nontrivial and sample is not None and len(cls.samples) < 3:
                    cls.samples.append(sample)
                cls.nontrivial.add(h)


def scratch_dir() -> str:
    d = os.environ.get("VERIF_SCRATCH")
    if not d:
        import tempfile

        d = tempfile.mkdtemp(prefix="verif-")
        os.environ["VERIF_SCRATCH"] = d
    os.makedirs(d, exist_ok=True)
    return d


def jdump(obj, path):
    tmp = path + ".tmp"
    with open(tmp, "w") as f:
        json.dump(obj, f, indent=1, default=str)
    os.replace(tmp, path)


def generic_replay(fn, cex):
    """R2 replay: call the harness function concretely (no CrossHair; the repr stub is inert on concrete values).

    Preconditions of the contract are re-checked; violated = returns a falsy oracle value or raises."""
    import inspect
    import re as _re
    import traceback as _tb

    args = cex.get("args") or []
    kwargs = cex.get("kwargs") or {}
    sig = inspect.signature(fn)
    ba = sig.bind(*args, **kwargs)
    ba.apply_defaults()
    doc = fn.__doc__ or ""
    for line in doc.splitlines():
        m = _re.match(r"\s*pre:\s*(.*)", line)
        if m:
            ok = eval(m.group(1), dict(fn.__globals__), dict(ba.arguments))
            if not ok:
                return {"violated": False, "detail": f"precondition {m.group(1)!r} false for {dict(ba.arguments)}"}
    post = "_"
    for line in doc.splitlines():
        m = _re.match(r"\s*post:\s*(.*)", line)
        if m:
            post = m.group(1)
    import sys as _sys

    _w = _sys.modules.get("vlib.world")
    if _w is not None:
        _w.W.concrete = True  # templates are instantiated with real literals: nothing of the rendering stub is left
    try:
        ret = fn(*ba.args, **ba.kwargs)
    except Exception as e:
        return {"violated": True, "detail": "raised " + "".join(_tb.format_exception(type(e), e, e.__traceback__))[-2500:]}
    env = dict(ba.arguments)
    env["_"] = ret
    env["__return__"] = ret
    ok = eval(post, dict(fn.__globals__), env)
    return {"violated": not ok, "detail": f"returned {ret!r}", "returned": repr(ret)[:500]}
