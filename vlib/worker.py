"""Analyse ONE condition with CrossHair in this process and print a JSON result on the last stdout line.

usage: python -m vlib.worker <harness module> <tier> <condition name> [<out.json>]
"""
from __future__ import annotations

import collections
import importlib
import json
import os
import re
import sys
import time
import traceback


def parse_call(msg: str):
    """'false when calling f(a=1, b=True) (which returns ...)' -> {'a': 1, 'b': True} or positional list"""
    import ast

    m = re.search(r"when calling (\w+)\((.*)", msg, re.S)
    if not m:
        return None
    rest = m.group(2)
    # find the matching close paren by trying prefixes that parse
    for end in [i for i, ch in enumerate(rest) if ch == ")"]:
        cand = "f(" + rest[: end + 1]
        try:
            tree = ast.parse(cand, mode="eval")
        except SyntaxError:
            continue
        call = tree.body
        try:
            args = [ast.literal_eval(a) for a in call.args]
            kwargs = {k.arg: ast.literal_eval(k.value) for k in call.keywords}
        except Exception:
            continue
        return {"args": args, "kwargs": kwargs}
    return None


def main(argv):
    modname, tier, condname = argv[:3]
    out = argv[3] if len(argv) > 3 else None
    t0 = time.time()
    res = {"cond": condname, "status": "error", "messages": [], "wall_s": 0.0}
    try:
        from vlib import tuning

        tuning.install()
        mod = importlib.import_module(modname)
        conds = {c.name: c for c in mod.conditions(tier)}
        cond = conds[condname]
        tuning.trace_repo_functions()
        if cond.custom:
            t1 = time.time()
            r = cond.fn()
            res.update({"paths": 0, "bounds": cond.bounds, "twin": cond.twin, "group": cond.group, "functions": sorted(tuning.TRACED), "solver": dict(tuning.STATS)})
            res.update(r)
            res["analysis_s"] = round(time.time() - t1, 2)
            raise SystemExit
        if cond.concrete:
            import vlib.world as _w

            _w.W.concrete = True
            t1 = time.time()
            try:
                ok = cond.fn()
                detail = ""
            except Exception as e:
                ok = False
                detail = "".join(traceback.format_exception(type(e), e, e.__traceback__))[-2000:]
            res.update({"status": "confirmed" if ok else "refuted", "paths": 1, "analysis_s": round(time.time() - t1, 2), "concrete": True,
                        "cex": {"args": [], "kwargs": {}}, "cex_message": "contract-validation item failed " + detail, "cex_kind": "CONCRETE",
                        "bounds": cond.bounds, "twin": False, "group": cond.group, "functions": sorted(tuning.TRACED), "solver": dict(tuning.STATS)})
            from vlib.common import PathLog as _PL

            res["path_log"] = {"entries": len(_PL.entries), "distinct": sorted(set(_PL.entries)), "nontrivial": sorted(_PL.nontrivial), "samples": _PL.samples}
            raise SystemExit
        from crosshair.core_and_libs import analyze_function, run_checkables
        from crosshair.options import AnalysisKind, AnalysisOptionSet

        stats = collections.Counter()
        opts = AnalysisOptionSet(
            per_condition_timeout=float(cond.timeout),
            per_path_timeout=float(cond.per_path_timeout),
            report_all=True,
            analysis_kind=[AnalysisKind.PEP316],
            stats=stats,
        )
        t1 = time.time()
        msgs = run_checkables(analyze_function(cond.fn, opts))
        res["analysis_s"] = round(time.time() - t1, 2)
        states = [m.state.name for m in msgs]
        res["messages"] = [{"state": m.state.name, "message": m.message[:2000], "line": m.line} for m in msgs]
        res["stats"] = {k: v for k, v in stats.items() if isinstance(v, (int, float))}
        res["paths"] = int(stats.get("num_paths", 0))
        if not msgs:
            res["status"] = "unknown"
            res["why"] = "no message"
        elif any(s in ("POST_FAIL", "EXEC_ERR", "POST_ERR") for s in states):
            res["status"] = "refuted"
            for m in msgs:
                if m.state.name in ("POST_FAIL", "EXEC_ERR", "POST_ERR"):
                    res["cex"] = parse_call(m.message)
                    res["cex_message"] = m.message[:2000]
                    res["cex_kind"] = m.state.name
                    break
        elif all(s == "CONFIRMED" for s in states):
            res["status"] = "confirmed"
        elif any(s in ("SYNTAX_ERR", "IMPORT_ERR") for s in states):
            res["status"] = "error"
        else:
            res["status"] = "unknown"
            res["why"] = ",".join(states)
        from vlib.common import PathLog

        res["path_log"] = {
            "entries": len(PathLog.entries),
            "distinct": sorted(set(PathLog.entries)),
            "nontrivial": sorted(PathLog.nontrivial),
            "samples": PathLog.samples,
        }
        res["solver"] = dict(tuning.STATS)
        res["functions"] = sorted(tuning.TRACED)
        res["bounds"] = cond.bounds
        res["twin"] = cond.twin
        res["group"] = cond.group
    except SystemExit:
        pass
    except BaseException as e:  # noqa - worker boundary
        res["status"] = "error"
        res["error"] = "".join(traceback.format_exception(type(e), e, e.__traceback__))[-4000:]
    res["wall_s"] = round(time.time() - t0, 2)
    line = json.dumps(res, default=str)
    if out:
        with open(out, "w") as f:
            f.write(line)
    print(line)
    sys.stdout.flush()
    os._exit(0)


if __name__ == "__main__":
    main(sys.argv[1:])
