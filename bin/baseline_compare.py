#!/usr/bin/env python3
"""Run the repo's pinned test command and compare the passing set with /root/.vp/BASELINE.json stable_pass."""
import json, subprocess, sys, tempfile, os, xml.etree.ElementTree as ET
base = json.load(open('/root/.vp/BASELINE.json'))
out = tempfile.mktemp(suffix='.xml')
cmd = base['cmd'].replace('<file>', out)
env = dict(os.environ); env.pop('INLINE_SNAPSHOT_VERIF', None)
subprocess.run(cmd, shell=True, stdout=subprocess.DEVNULL, stderr=subprocess.DEVNULL, env=env)
passed = set()
for tc in ET.parse(out).getroot().iter('testcase'):
    if not any(ch.tag in ('failure', 'error', 'skipped') for ch in tc):
        passed.add(f"{tc.get('classname')}::{tc.get('name')}")
os.unlink(out)
want = set(base['stable_pass'])
print('stable_pass', len(want), 'passed now', len(passed), 'missing', len(want - passed))
for m in sorted(want - passed)[:20]: print('  MISSING', m)
sys.exit(1 if want - passed else 0)
