CHECKS = {
    "C11": {
        "text": "CrossHair/z3 explores every execution path of the repo's align/nw_align/add_x on two lists of symbolic ints (all equality patterns, all values) within the stated length bound and confirms per path that the script is a valid, LCS-optimal edit script keeping common prefix and suffix; bounded model checking of the real functions, not sampling.",
        "note": "Bound: list lengths (quick <=3/<=3, thorough <=4/<=4); add_x on all scripts up to length 6/8. Trusted: CrossHair's int/list/str semantics, z3. Elements are ints (the aligner only uses ==).",
        "technique": "symbolic execution (CrossHair + z3) of the real align/nw_align/add_x, per-path postcondition, counterexample replay",
    },
}
NOT_APPLICABLE = {}
