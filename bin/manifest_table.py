CHECKS = {
    "C11": {
        "text": "CrossHair/z3 explores every execution path of the repo's align/nw_align/add_x on two lists of symbolic ints (all equality patterns, all values) within the stated length bound and confirms per path that the script is a valid, LCS-optimal edit script keeping common prefix and suffix; bounded model checking of the real functions, not sampling.",
        "note": "Bound: list lengths (quick <=3/<=3, thorough <=4/<=4); add_x on all scripts up to length 6/8. Trusted: CrossHair's int/list/str semantics, z3. Elements are ints (the aligner only uses ==).",
        "technique": "symbolic execution (CrossHair + z3) of the real align/nw_align/add_x, per-path postcondition, counterexample replay",
    },
}
CHECKS.update({
    "C02": {
        "text": "CrossHair/z3 executes the real session pipeline (snapshot() call sites, value classes, adapters, _align, all Change kinds, apply_all, generic_sequence_update, ChangeRecorder, SourceFile.new_code, real tokenizer and black) on template tests whose leaves are symbolic ints; every equality pattern between previous and observed elements (hence every edit script within the bound) is a solver-explored path, and on each path the solver decides that all recorded comparisons hold against the values read back from the rewritten text.",
        "note": "Bounds: container sizes / shapes listed in evidence.bounds; int leaves only (rendering of a symbolic int is stubbed as a name token; replays use real repr); concrete dict keys; black/executing/asttokens run concretely on the concrete program text. Counterexamples are replayed concretely with real literals before VIOLATION is printed.",
        "technique": "symbolic execution (CrossHair + z3) of the real create/fix pipeline on template programs with symbolic data; per-path oracle decided by the solver; concrete replay",
    },
    "C05": {
        "text": "For every operation (==, <=, >=, in, [key]) one call site is evaluated up to m times with symbolic ints; for each of the 16 approved subsets CrossHair/z3 explores all paths of the real value classes and change application and the solver decides on each path that reported categories and the value read back from the rewritten text equal an independent model of docs/categories.md; update-only application is shown value-preserving.",
        "note": "Bounds: m<=3 (4) evaluations, previous lists <=2 (3), key patterns enumerated; totally ordered ints; update_flags = approved subset. Trusted: the 60-line documented model in harness/c05.py, CrossHair/z3.",
        "technique": "symbolic execution (CrossHair + z3) of the real value classes against an executable model of the documented category algebra",
    },
    "C06": {
        "text": "With no category flag, the recorded result of every comparison form against snapshot(v) is compared by the solver, on every path and for all symbolic values, with the result of the same comparison against the plain value; mixed operations must raise TypeError; the disabled state must return the identical object.",
        "note": "Bounds: <=3 comparisons per snapshot, shapes listed in evidence; ints and containers of ints; comparisons that do not raise on the plain value. The routes into the disabled state (flags, CI, xdist, xfail) are decided under C04.",
        "technique": "symbolic execution (CrossHair + z3) of the real comparison operators vs. plain Python comparison, differential per path",
    },
})
CHECKS.update({
    "C01": {
        "text": "The real plugin hooks (pytest_configure, snapshot_check fixture, pytest_sessionfinish with import insertion) run in-process under CrossHair with --inline-snapshot=create on templates with empty snapshot() calls (4 placements x 5 operations x 24 value shapes); the observed leaves are symbolic ints, so default elision, min/max selection, distinct-member selection are solver-decided paths; on each path the rewritten module is executed with inline-snapshot inactive and the solver decides that every assertion holds.",
        "note": "Bounds: shapes up to depth 2 / width 3, <=3 observations; int leaves symbolic, other leaf types concrete constants; pydantic and externals outside (C code realises symbolic ints / C13). pytest's runner itself is replaced by direct calls of the real hooks with stub objects.",
        "technique": "symbolic execution (CrossHair + z3) of the real create pipeline; oracle = rewritten module passes when inline-snapshot is disabled, decided per path",
    },
})
CHECKS.update({
    "C03": {
        "text": "(a) the real generic_sequence_update / Change.replace / range_of / SourceRange / SourceFile._check run on real asttokens Token objects whose (line, col) positions are symbolic ints constrained only by lexical order, with symbolic delete and insert masks, for List/Tuple/Dict/Call parents: the solver shows on every path that each replacement is a gap between tokens inside the braces, never touches a kept element, replacements are disjoint and the resulting element sequence parses to exactly the expected one; (b) the real fix/trim pipeline runs on 8 adversarial layouts with symbolic values: text outside the snapshot() arguments is byte-identical (unclean file) or AST-identical (clean file) on every path.",
        "note": "Bounds: (a) <=3 elements (thorough 4), multi-line layouts up to 1 element in quick / 3 in thorough, single-line beyond; callers' contract assumed for sequences (no insertion at a deleted index; the aligner lemma behind it is decided in C11). (b) layouts are an enumerated list, not quantified; one open known finding (CRLF files are rewritten with LF).",
        "technique": "symbolic execution (CrossHair + z3) of the real token-range edit kernel over symbolic token positions and masks; real pipeline on layout templates with symbolic data",
    },
})
CHECKS.update({
    "C04": {
        "text": "The real pytest_addoption / pytest_configure / snapshot_check / pytest_sessionfinish run in-process under CrossHair with the flag-membership bits (CLI or INLINE_SNAPSHOT_DEFAULT_FLAGS), terminal-or-not, the 4 review answers, the CI variable index, PYCHARM_HOSTED, the xdist setting and xfail as symbolic variables; an independent 30-line model of docs/pytest.md + configuration.md computes the approved set (or usage error / inactive) and the solver confirms on every path that the files written and the storage directory are exactly what applying the approved categories gives - and nothing at all when nothing is approved.",
        "note": "The whole product of the listed dimensions is covered (split into 77 conditions only for parallelism). The test program (one pending change per category + one outsourced external + one persisted unreferenced external, two files) is concrete. rich Console / Confirm.ask are scripted stubs; pytest's own option parser is replaced by argparse for the shortcut case. One defect found here was repaired (fix: commit 613a43d).",
        "technique": "symbolic execution (CrossHair + z3) of the real plugin hooks over symbolic flag/environment bits against an executable model of the documented gate",
    },
})
CHECKS.update({
    "C07": {
        "text": "The outcome of a test is produced by the real autouse fixture generator snapshot_check around the real test body after the real pytest_configure; a subject snapshot of each of the five operations (empty or not) is placed at each of three positions between two == snapshots, all 8 values and the flag bits create/fix/trim/update/review(/report) symbolic; the solver confirms on every path, in both directions, that the outcome is not 'passed' exactly when some executed snapshot is missing or fails against the value in the source.",
        "note": "Bound: 3 snapshots per test, subject evaluated at most twice. pytest's mapping of a failing fixture teardown to a non-zero exit status is validated by 8 fixed projects in a real pytest process (contract validation, labelled, not solver coverage). One defect found here was repaired (fix: commit fe1922b).",
        "technique": "symbolic execution (CrossHair + z3) of the real fixture + value classes over symbolic values and flag bits; biconditional oracle per path",
    },
})
CHECKS.update({
    "C12": {
        "engine": "strsym",
        "text": "Engine B reads _str_literal_helper / triple_quote (and the routing guard of value_to_token) from /repo's current source, rewrites three AST node kinds into runtime calls and executes the repo's own function bodies on vectors of z3 integer code points; every branch on a symbolic boolean forks, every path ends in a z3 obligation decode(triple_quote(s)) == s (no assertion, delimiter never unescaped) that must be unsat for all code points, where decode is an executable model of CPython's literal evaluation validated against ast.literal_eval on each run.",
        "note": "Bounds: strings of <=3 segments (thorough 4) where a segment is an arbitrary code point (0..0x10FFFF) or one of 10 dictionary entries, plus one more segment with <=1 arbitrary code point. str.isprintable exact up to U+00A0, free above (sound over-approximation). Single-line strings (CPython repr), bytes and the formatter's treatment of literals are environment: covered by a labelled contract corpus of 50 values through the real pipeline, not by the solver. Two defects found here were repaired (fix: 77ee014, 95a8023).",
        "technique": "AST-driven bounded SMT encoding (z3, LIA over code points) of the repo's string-literal kernel with path forking by re-execution; translator validation on concrete corpus",
    },
})
CHECKS.update({
    "C20": {
        "text": "_rewrite_code.SourceFile.new_code is executed symbolically with texts abstracted to ids and the formatter replaced by an arbitrary idempotent function on a 5-element domain (complete for this code: at most 4 distinct texts occur): the solver confirms that a clean file yields a fixed point of the formatter, an unclean file without format-command yields the raw replacement (new content never passed to the formatter), and a format-command always formats. file_mode_for_path is executed with a symbolic [tool.black] configuration and must produce the documented Mode fields (negated skip flags).",
        "note": "That black itself is idempotent on the produced text cannot be encoded (mypyc): observed on a fixed corpus (labelled contract validation) and on the clean layout template of C03. asttokens' replace step is abstracted to 'yields text r'.",
        "technique": "symbolic execution (CrossHair + z3) of the real new_code / file_mode_for_path over an abstract text domain with an uninterpreted idempotent formatter table",
    },
})
CHECKS.update({
    "C13": {
        "text": "Inductive single step from a symbolic pre-state on a real scratch storage directory: which of 3 data items (two sharing a short hash prefix) are persisted / outsourced-but-unreferenced, which of 2 test files references which item, which file takes part, which categories are approved are symbolic bits; (a) every DiscStorage / outsource / external operation and (b) one complete real session (hooks in process) are executed from every invariant-satisfying state, and the solver confirms per path: names are the SHA-256 of the bytes, no -new file survives a session start, a persisted file appears only with an approved written reference that resolves uniquely, a persisted file disappears only under approved trim and unreferenced by participating files, missing/ambiguous prefixes raise HashError.",
        "note": "Bound: 3 items, 2 files, suffix .txt, hash-length in {2, 12, 64}. The representation invariant assumed for pre-states is stated in evidence.assumptions; SHA-256 and the file system run for real. Histories of any length follow by induction only as far as that invariant is right. The review-mode defect repaired under C04 (613a43d) also violated this property.",
        "technique": "symbolic execution (CrossHair + z3) of one inductive step of the real storage code / real session from a symbolic pre-state",
    },
})
CHECKS.update({
    "C16": {
        "text": "(a) the repo's sort_set_values (the ordering step of the set / frozenset renderers) is executed on the same distinct symbolic ints - optionally mixed with strs for the not-orderable branch - in two iteration orders related by a symbolic permutation index; the solver confirms identical output for every pair of orders and every value assignment (an arbitrary hash seed is an arbitrary iteration order). (b) the real create/fix pipeline runs on the same symbolic data under real black, black missing and an identity format-command: identical syntax tree and equal value of the rewritten argument on every path.",
        "note": "Bound: sets of <=4 (5) elements, 6 data shapes. Different interpreter processes / hash seeds are only exercised by a labelled contract-validation item (3 real pytest processes).",
        "technique": "symbolic execution (CrossHair + z3) of the real set ordering over symbolic permutations; differential runs of the real pipeline under three formatter configurations",
    },
})
CHECKS.update({
    "C18": {
        "text": "The real pytest_configure / fixture / pytest_sessionfinish run in-process under CrossHair on 22 'something went wrong earlier' templates (failing comparison before later snapshots, exception in the test, nested snapshot() in aligned list/tuple/dict/dataclass of other length, nested snapshot whose parent is replaced, comparisons that raise, mixed operations, changing argument, shared module-level snapshot) with all values and the 4 approval bits symbolic; which alignment the aligner picks - hence whether an inner snapshot is reached only in compare-only mode or its element is deleted - is a solver-explored path; on every path pytest_sessionfinish must return without an exception and the rewritten file must parse.",
        "note": "The template list is enumerated, not quantified. Hand-written values of the wrong container type for the operation are treated as outside documented usage. Four defects found here were repaired (fix: 917fbbd, 837e23f+follow-up, 60289f9).",
        "technique": "symbolic execution (CrossHair + z3) of the real end-of-session processing over symbolic values/approvals on failure-shaped templates",
    },
})
CHECKS.update({
    "C10": {
        "text": "The real fix/create/update pipeline (D-core) runs on 21 snapshot shapes that contain user-controlled sub-expressions (Is(...), f-strings, star-expressions, nested snapshot()) next to managed siblings in list / tuple / dict value / dataclass keyword / top level, all int leaves symbolic (including values that make the user-controlled part compare unequal); on every path: no approved change replaces a user-controlled expression, every such segment in the new text is one of the old ones verbatim, none is added, star-containers are byte-identical, and with the user-controlled parts counted as matching the observed value equals the value read back (managed siblings are repaired).",
        "note": "Shapes are enumerated; dirty-equals is not installed (same is_unmanaged route as Is()); f-string contents are concrete. Segments are recognised textually.",
        "technique": "symbolic execution (CrossHair + z3) of the real pipeline on templates with user-controlled parts; change-object and text oracles per path",
    },
})
CHECKS["C11"]["text"] += " (b) The real fix-only pipeline runs on lists/tuples/dicts/constructor calls whose previous elements are hand-written expressions (some wrapped in Is()): the solver confirms that every element of the equal common prefix and suffix, and every equal entry under a surviving key/keyword, keeps its source text verbatim while the value read back is the observed one."
CHECKS["C11"]["note"] += " (b) sequences <=3/<=3 (thorough 4/4), 6 keyed shapes."
CHECKS.update({
    "C17": {
        "text": "D-core runs in which the compared object ([x0, [x1]] or {1: [x0]}, symbolic ints) is mutated by the test after the assertion or between two assertions of the same object (7 list and 5 dict mutations, operands symbolic) for ==, <=, >=, in and [key]; the solver confirms on every path that the value read back from the rewritten text equals the harness's own copy taken at comparison time (max/min/members over the copies); a value whose deep copy compares unequal (symbolic bool) raises UsageError exactly then.",
        "note": "Bound: depth-2 values, one mutation per run, create and fix. Custom __deepcopy__ outside.",
        "technique": "symbolic execution (CrossHair + z3) of the real value classes with post-comparison mutation; read-back oracle",
    },
})
CHECKS.update({
    "C14": {
        "text": "D-core on 4 layouts of three call sites (two on one line, helper argument, nested function + comprehension + lambda, module level shared by two tests) evaluated in an interleaving given by a symbolic schedule (site index per step) with symbolic values, empty or pre-filled; the solver confirms on every path that each site's value read back equals the documented model applied to that site's own observation subsequence (no leakage, aggregation = max / min / union) and that never-evaluated sites are untouched. Re-evaluating a snapshot whose hand-written argument changed (solver-decided inequality) raises UsageError; with Is() it never does and the current value is used.",
        "note": "Bound: 3 sites, <=3 (4) evaluations, 6 argument forms. executing's node lookup runs for real. One defect found here was repaired (fix: f3d9927).",
        "technique": "symbolic execution (CrossHair + z3) over symbolic evaluation schedules and values; per-site model oracle",
    },
})
CHECKS.update({
    "C08": {
        "text": "Two-session histories on materialised text: run 1 with approved set F on 16 templates (lists, 1-tuples, dicts, dataclass calls, hand-written arguments, type change, bounds, membership, sub-snapshots, several sites), run 2 with the same F on the text run 1 wrote, same symbolic observations, the names introduced by the renderer still bound to their symbolic values. The solver confirms on every path that run 2 rewrites nothing for every F, that after F = all categories no category is pending and every comparison holds, and that whatever is still pending was not approved.",
        "note": "Leaf tokens other than ints are not quantified: 31 non-int leaf values (complex, float, ...) are run three times through the real pipeline as labelled contract validation. One defect found there was repaired (fix: complex parentheses).",
        "technique": "symbolic execution (CrossHair + z3) of two consecutive real sessions on content-addressed materialised text",
    },
})
CHECKS.update({
    "C09": {
        "text": "Multi-session histories on materialised text: for 8 templates whose pending changes of several categories touch the same AST nodes (membership list with trim+fix+update, sub-snapshots with trim+create+fix+update, list/dict/dataclass with hand-written parts, several sites) and every one of the 24 orders, four single-category sessions are compared with one combined session; the solver confirms on every path identical syntax trees of the snapshot arguments and equal values.",
        "note": "Test bodies record comparison results instead of aborting at the first failing assert (a trim-only run on an aborting test observes fewer comparisons - documented behaviour of failing tests, outside the stated confluence). int leaves; template list enumerated.",
        "technique": "symbolic execution (CrossHair + z3) of multi-session histories on content-addressed materialised text; differential oracle (AST + value)",
    },
})
CHECKS.update({
    "C19": {
        "text": "Differential symbolic execution: the same template and the same symbolic values go through the real, unmodified inline_snapshot.testing.Example.run_inline and through the real plugin hooks in process, with the four category bits symbolic; the solver confirms on every path that both write identical files and report the same pending categories.",
        "note": "6 templates (enumerated). Example.run_pytest and real pytest processes cannot carry symbolic data: they are compared with run_inline on 5 fixed projects as labelled contract validation. One defect found here was repaired (run_inline did not insert the HasRepr import).",
        "technique": "differential symbolic execution (CrossHair + z3) of Example.run_inline vs. the real plugin hooks",
    },
})
CHECKS.update({
    "C15": {
        "text": "The real session end runs on a two-file project with an outsourced external while every environment call on the path changes-computed -> files-written (black.format_str or the format-command subprocess, Path.read_text, Path.rename, open-for-write) goes through a fault proxy; the index of the failing call, the failure kind (exception / non-zero exit / unparsable output), the create/fix bits and 4 values are symbolic, so the solver enumerates the fault space from the code's own call sequence. Per path: every test file on disk parses and is the old text or a complete correct new text, a formatter crash / non-zero exit leads to a reported problem, every external reference in a file resolves to persisted data, the global state is popped.",
        "note": "Fault = one transient failure of the at-th environment call (at <= 40). write() failing after truncation and process kills are outside. Two defects found here were repaired (8f7b335, b46ada9).",
        "technique": "symbolic execution (CrossHair + z3) of the real session end under solver-chosen fault injection (fault index and kind symbolic)",
    },
})
NOT_APPLICABLE = {}


# ---- additions made while the checks were strengthened against seeded changes (see DESIGN.md section 6)
CHECKS["C01"]["note"] += " Shapes now include pydantic models with Any-typed fields (one filled in place after construction) and a tuple holding a list that keeps growing across loop iterations."
CHECKS["C02"]["note"] += " Families also cover sibling / sub-classes of dataclass-like types; a reproduced counterexample is additionally replayed in a real pytest process (create,fix then disable) and the outcome is stored with the replay."
CHECKS["C03"]["text"] += " (c) import insertion through the real hooks: in two-file sessions only the file whose new code needs HasRepr gets the import (both processing orders); with a module docstring / __future__ import / comment / import block at the top the file still compiles, keeps its docstring and changes nowhere else."
CHECKS["C04"]["note"] += " Later additions: the config of an xdist *worker* process, xfail marks on the function vs inherited from class/module vs xfail(False) (the request stub models own and inherited marks), and a byte-level 'nothing outside the snapshot arguments changes except the needed import' oracle on both files. Three defects found here were repaired (613a43d, 04af9b0; fe1922b under C07)."
CHECKS["C05"]["note"] += " Also: sub-snapshot keys that are accessed but not compared, and snapshots that no test uses in the run (update must not change their value). One defect found there was repaired (d3e9004)."
CHECKS["C06"]["text"] += " Sessions disabled by flag, CI variable, xdist or an xdist worker config are run through the real hooks with any subset of three tests marked xfail: snapshot(v) is v in every test."
CHECKS["C07"]["note"] += " A call site shared by two test items is covered with and without an argument (missing values are counted per item)."
CHECKS["C08"]["note"] += " Templates include values mutated after the assertion (tuple holding a list)."
CHECKS["C09"]["note"] += " Templates include nested inner snapshots and constructor calls with a deleted default keyword next to an inserted one. One defect found there was repaired (e4ad14a)."
CHECKS["C10"]["note"] += " Four defects found here were repaired (5982a93, 44e1aef, d2ad395 and, via the seed, the default-keyword mapping)."
CHECKS["C12"]["note"] += " The formatter hand-off SourceFile._format is additionally executed by engine B on literals of 4/6 (8) arbitrary plain characters with the formatter modelled as identity+newline; the corpus is also written through fix/trim flows over existing values."
CHECKS["C13"]["note"] += " The session step also covers review mode (all-yes / all-no answers) and references written with the complete hash. One defect found in the thorough tier was repaired (cd6248c)."
CHECKS["C14"]["note"] += " Also: two byte-identical test files (equal code objects) with different observations; re-evaluation with fix/update approved."
CHECKS["C15"]["note"] += " Fault kinds: exception, non-zero exit, unparsable output, death by signal (negative return code, truncated but parsable output); oracle includes 'nothing outside the snapshot arguments is lost'."
CHECKS["C16"]["note"] += " The three-formatter differential includes concrete string / bytes leaves (both quote kinds, blanks at the ends)."
CHECKS["C17"]["note"] += " Values include a tuple holding a list."
CHECKS["C18"]["note"] += " Templates include non-ASCII text left of the edited expressions."
CHECKS["C19"]["note"] += " Templates include a two-file project and HasRepr values inserted into existing lists / dicts / sub-snapshots."
# fourth batch of seeds / findings (see DESIGN.md 5 and 6.2)
CHECKS["C01"]["note"] += " Also: values of one type whose repr is Python code for some values only (symbolic per value); Flag values without any set flag (defect repaired in c2cec81)."
CHECKS["C03"]["note"] += " Layouts include parenthesized elements, a file with a byte order mark and a snapshot on its first line (real write); files that already import HasRepr in five positions (no further import may be added). Defects repaired: 7d7f9a9, b7692e2. The kernel's abstract tokens carry an abstract text whose last-line length equals the end column (environment contract after 1d54ab9)."
CHECKS["C07"]["note"] += " Subjects include an == snapshot holding inner snapshot() calls (alignment probes must not count as wrong values; defect repaired in 9d8c53e)."
CHECKS["C08"]["note"] += " Templates include 1-tuples written in place of values of another type and an in-snapshot of a HasRepr value whose class answers False for other types (defect repaired in 489355f)."
CHECKS["C10"]["note"] += " Also: observed dicts that enumerate the shared keys in another order; snapshots that no test compares (star-expressions, f-strings, Is() keep their text under every approved set; defect repaired in 87eb161)."
CHECKS["C12"]["note"] += " File-rewrite family (engine A): 17 source lines with non-ASCII / astral / multi-line literals at or before the edited node, int leaves and the choice of the written string symbolic, every subset of create/fix/trim/update; two defects found there were repaired (f92859b, 1d54ab9)."
CHECKS["C15"]["note"] += " Two more kinds: exit status 0 with output in another encoding, exit status 0 with empty output (defect repaired in dfb07fc); the test files hold non-ASCII strings outside the snapshot arguments."
CHECKS["C16"]["note"] += " History family: two values (equal but differently typed ones included) generated one after the other in one session read back with their own types. Every modelled session starts with the module-level containers of a fresh process."
CHECKS["C17"]["note"] += " Uncopyable values are also judged in sequences (a well-behaved value of the same outer type first; two odd values; bare/list/dict/tuple; ==, in, [])."
CHECKS["C18"]["note"] += " Templates include replaced / neighbouring multi-line literals with non-ASCII characters and parenthesized elements."
CHECKS["C20"]["note"] += " One path rewritten twice in one interpreter with different contents (symbolic); because CrossHair bypasses functools.lru_cache, the same case is also run concretely on all idempotent formatters of a 3-text domain (contract-validation item, no solver)."
# fifth batch (fourth seed round and its side observations)
CHECKS["C02"]["note"] += " Also: hand-written dict displays with two equal keys."
CHECKS["C05"]["note"] += " One open known finding (known_findings.json: C05-positional-dataclass-arguments - a dataclass snapshot written with positional arguments reports a fix although the comparison holds): its witness is replayed on every run, the line KNOWN-FINDING is printed and exactly that template is left out of the search."
CHECKS["C06"]["note"] += " Also: comparisons made at import time, outside any test item, are not charged to a test."
CHECKS["C07"]["note"] += " Also: import-time comparisons with every flag subset; a comparison that raises while a list is aligned (defect repaired in 47970c8)."
CHECKS["C13"]["note"] += " Also: one inductive step for sessions in which inline-snapshot is disabled (flag / CI / xdist): -new leftovers are pruned, nothing else changes."
CHECKS["C14"]["note"] += " Also: one growing list recorded several times at an in site (optionally compared at a second site)."
CHECKS["C18"]["note"] += " Also: short-report sessions; comparisons that raise inside an in-snapshot, a never-compared snapshot(variable) of a dataclass, pytest started from another directory (defects repaired in bca6177, fe3a84c, a05aa4e)."
CHECKS["C01"]["note"] += " Dataclass fields with init=False (defect repaired in ada6d73)."
