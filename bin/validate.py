#!/usr/bin/env python3
import json, sys, glob, jsonschema
jsonschema.validate(json.load(open('/verif/MANIFEST.json')), json.load(open('/root/.vp/MANIFEST.schema.json'))); print('manifest ok')
s = json.load(open('/root/.vp/EVIDENCE.schema.json'))
for f in sorted(glob.glob('/verif/evidence/*.json')):
    jsonschema.validate(json.load(open(f)), s); print('evidence ok', f)
