#!/bin/bash
# usage: run_all.sh [quick|thorough]  -- runs every registered check sequentially, prints one summary line each
tier=${1:-quick}
cd "$(dirname "$0")/.."
for id in C01 C02 C03 C04 C05 C06 C07 C08 C09 C10 C11 C12 C13 C14 C15 C16 C17 C18 C19 C20; do
  s=$(date +%s)
  ./check $id --tier $tier $EXTRA > /tmp/runall_${tier}_$id.log 2>&1; rc=$?
  e=$(date +%s)
  echo "$id rc=$rc $((e-s))s :: $(grep -E "^C[0-9]+ tier=" /tmp/runall_${tier}_$id.log | tail -1)"
  grep -E "^(VIOLATION|KNOWN-FINDING|INCONCLUSIVE|HARNESS-ERROR)" /tmp/runall_${tier}_$id.log | cut -c1-200 | head -5
done
