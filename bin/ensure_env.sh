#!/bin/sh
# Build /verif/.venv: a venv of /venv's interpreter that sees /venv's site-packages (repo deps,
# inline_snapshot itself as an editable install) plus crosshair-tool/z3 from the offline wheelhouse.
# Idempotent; safe to call concurrently (lock).
set -e
V=/verif/.venv
here=$(cd "$(dirname "$0")/.." && pwd)
V="$here/.venv"
if [ -x "$V/bin/python" ] && "$V/bin/python" -c "import crosshair, z3, inline_snapshot" 2>/dev/null; then
  exit 0
fi
(
  flock 9
  if [ -x "$V/bin/python" ] && "$V/bin/python" -c "import crosshair, z3, inline_snapshot" 2>/dev/null; then
    exit 0
  fi
  rm -rf "$V"
  /venv/bin/python -m venv "$V"
  SP=$("$V/bin/python" -c "import sysconfig; print(sysconfig.get_paths()['purelib'])")
  echo "import site; site.addsitedir('/venv/lib/python3.12/site-packages')" > "$SP/_overlay.pth"
  PIP_NO_INDEX=1 "$V/bin/pip" install -q --no-index --find-links /opt/veriftools/wheels crosshair-tool z3-solver >/dev/null
  "$V/bin/python" -c "import crosshair, z3, inline_snapshot; print('env ok', crosshair.__version__)"
) 9>"$here/.venv.lock"
