#!/usr/bin/env python3
"""Regenerate MANIFEST.json from the table below (keeps it valid at all times)."""
import json, os
ROOT = os.path.dirname(os.path.dirname(os.path.abspath(__file__)))
from manifest_table import CHECKS, NOT_APPLICABLE  # noqa

props = [json.loads(l) for l in open(os.path.join(ROOT, "properties.jsonl"))]
ids = [p["id"] for p in props]
checks = []
for pid in ids:
    if pid in CHECKS:
        c = CHECKS[pid]
        checks.append({
            "property_id": pid,
            "quick_cmd": f"./check {pid} --tier quick",
            "thorough_cmd": f"./check {pid} --tier thorough",
            "evidence_file": f"/verif/evidence/{pid}.json",
            "replay_cmd_template": f"./check {pid} --replay {{path}}",
            "engine": c.get("engine", "symsession"),
            "level_claimed": {"category": "model_checking", "text": c["text"], "design_ref": c.get("design_ref", f"DESIGN.md section 4, {pid}")},
            "level_note": c["note"],
            "technique": c["technique"],
        })
na = [{"property_id": pid, "reason": NOT_APPLICABLE.get(pid, "check not built yet (work in progress); see DESIGN.md")} for pid in ids if pid not in CHECKS]
m = {
    "version": 1,
    "setup_cmd": "bin/ensure_env.sh",
    "hooks": {
        "guard": "INLINE_SNAPSHOT_VERIF",
        "enable": "no source hooks are needed: all shims are attribute assignments made by the harness process at import time; /repo/src is imported unmodified",
        "baseline_off_cmd": "cd /repo && /venv/bin/python -m pytest -ra -q -p no:cacheprovider --timeout=900 --continue-on-collection-errors",
        "source_commits": [],
        "add_only": True,
    },
    "engines": [
        {"name": "symsession", "path": "vlib/", "serves_properties": [p for p in ids if p in CHECKS and CHECKS[p].get("engine", "symsession") == "symsession"],
         "kind_free_text": "CrossHair (z3) symbolic execution of the real inline_snapshot code through its Python API; symbolic ints/bools as data, concrete program text; one worker process per condition"},
        {"name": "strsym", "path": "vlib/strsym.py", "serves_properties": [p for p in ids if p in CHECKS and CHECKS[p].get("engine") == "strsym"],
         "kind_free_text": "AST-driven bounded z3 encoding: the repo's own string-literal functions are executed on vectors of z3 integer code points with forking on symbolic booleans"},
    ],
    "checks": checks,
    "not_applicable": na,
    "notes": "Solver-based checking of the real code. Every check regenerates its encoding from /repo's working tree on each run (the repo modules are imported and executed symbolically; nothing is cached). See DESIGN.md.",
}
json.dump(m, open(os.path.join(ROOT, "MANIFEST.json"), "w"), indent=1)
print("checks:", [c["property_id"] for c in checks], "n/a:", len(na))
