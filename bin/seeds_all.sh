#!/bin/bash
# Runs every seeded change against the check of its property (in a scratch worktree, never in /repo) and prints one line
# per seed: detected (exit 1 + VIOLATION) or MISSED.  Results -> seeded/RESULTS.txt
cd "$(dirname "$0")/.."
out=seeded/RESULTS.txt; : > $out
for d in seeded/*/; do
  sid=$(basename $d); pid=$(python3 -c "import json; print(json.load(open('$d/meta.json'))['property'])")
  if grep -q '"retired"' $d/meta.json; then echo "$sid ($pid): retired (no longer applies to HEAD as a valid seed, see meta.json)" | tee -a $out; continue; fi
  bin/seed_check.sh $d/patch.diff $pid > /tmp/seedsall_$sid.log 2>&1
  if grep -q "rc=1 " /tmp/seedsall_$sid.log && grep -q "^VIOLATION" /tmp/seedsall_$sid.log; then res="detected"; else res="MISSED"; fi
  echo "$sid ($pid): $res :: $(head -1 /tmp/seedsall_$sid.log)" | tee -a $out
done
