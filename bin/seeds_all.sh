#!/bin/bash
# Runs every seeded change against the check of its property (in a scratch worktree, never in /repo) and prints one line
# per seed: detected (exit 1 + VIOLATION) or MISSED.  Results -> seeded/RESULTS.txt
# usage: seeds_all.sh [lanes]   (lanes > 1: that many seeds are checked side by side; SEEDS_DONE=<file> reuses the lines of an earlier partial run)
cd "$(dirname "$0")/.."
lanes=${1:-1}
out=seeded/RESULTS.txt
tmp=$(mktemp -d /tmp/seedsall-XXXXXX)
one() {
  d=$1; sid=$(basename $d); pid=$(python3 -c "import json; print(json.load(open('$d/meta.json'))['property'])")
  if [ -n "$SEEDS_DONE" ] && grep -q "^$sid (" $SEEDS_DONE; then grep "^$sid (" $SEEDS_DONE > $tmp/$sid.res; return; fi  # result of an earlier partial run
  if grep -q '"retired"' $d/meta.json; then echo "$sid ($pid): retired (no longer applies to HEAD as a valid seed, see meta.json)" > $tmp/$sid.res; cat $tmp/$sid.res; return; fi
  SEEDCHECK_TAG=_$sid bin/seed_check.sh $d/patch.diff $pid > $tmp/$sid.log 2>&1
  rm -f /tmp/seedcheck_${pid}_$sid.log
  if grep -q "rc=1 " $tmp/$sid.log && grep -q "^VIOLATION" $tmp/$sid.log; then res="detected"; else res="MISSED"; fi
  echo "$sid ($pid): $res :: $(head -1 $tmp/$sid.log)" > $tmp/$sid.res; cat $tmp/$sid.res
}
export -f one; export tmp
ls -d seeded/*/ | xargs -P $lanes -I{} bash -c 'one {}'
cat $(ls $tmp/*.res | sort) > $out
rm -rf $tmp
