#!/bin/bash
# usage: seed_check.sh <patch.diff> <ID> [extra ./check args]
# Applies the patch in a scratch worktree of /repo's HEAD (never in /repo), points the check at it with VERIF_REPO,
# runs the check, removes the worktree.
patch=$(readlink -f $1); id=$2; shift 2
wt=$(mktemp -d /tmp/seedwt-XXXXXX); rmdir $wt
git -C /repo worktree add -q --detach $wt HEAD || exit 2
( cd $wt && git apply $patch ) || { echo "patch does not apply"; git -C /repo worktree remove --force $wt; exit 2; }
cd /verif && VERIF_REPO=$wt timeout 3000 ./check $id --no-evidence "$@" > /tmp/seedcheck_$id$SEEDCHECK_TAG.log 2>&1; rc=$?
git -C /repo worktree remove --force $wt
echo "check $id rc=$rc  $(grep -c '^VIOLATION' /tmp/seedcheck_$id$SEEDCHECK_TAG.log) violation lines; $(grep -c 'HARNESS-ERROR' /tmp/seedcheck_$id$SEEDCHECK_TAG.log) harness errors"
grep "^  violation in" /tmp/seedcheck_$id$SEEDCHECK_TAG.log | head -3 | cut -c1-250
tail -1 /tmp/seedcheck_$id$SEEDCHECK_TAG.log | cut -c1-250
