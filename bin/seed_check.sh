#!/bin/bash
# usage: seed_check.sh <patch.diff> <ID> [extra ./check args]  -- applies the patch to /repo, runs the check, reverts
patch=$1; id=$2; shift 2
cd /repo && git apply $patch || { echo "patch does not apply"; exit 2; }
cd /verif && timeout 3000 ./check $id --no-evidence "$@" > /tmp/seedcheck_$id.log 2>&1; rc=$?
cd /repo && git checkout -- . 
echo "check $id rc=$rc  $(grep -c '^VIOLATION' /tmp/seedcheck_$id.log) violation lines; $(grep -c 'HARNESS-ERROR' /tmp/seedcheck_$id.log) harness errors"
grep "^  violation in" /tmp/seedcheck_$id.log | head -3 | cut -c1-250
tail -1 /tmp/seedcheck_$id.log | cut -c1-250
