#!/bin/bash
# usage: seed_verify.sh <ID> <worktree with the change applied and _seed/ inside>
# Confirms: demo fails with the change, passes without; the 478 baseline tests still pass with the change.
id=$1; wt=$2
cd $wt || exit 2
demo=$(ls _seed/demo*.py | head -1)
git diff -- src > /tmp/seedv_$id.diff
echo "== $id patch: $(git diff --stat -- src | tail -1)"
if [[ $demo == *_test.py || $demo == *test_*.py ]]; then run="/venv/bin/python -m pytest -q -p no:cacheprovider $demo"; else run="/venv/bin/python $demo"; fi
PYTHONPATH=$wt/src timeout 600 $run >/tmp/seedv_$id.with.log 2>&1; with=$?
# (git stash is shared between all worktrees of a repository: do not use it here)
git checkout -q -- src
PYTHONPATH=$wt/src timeout 600 $run >/tmp/seedv_$id.without.log 2>&1; without=$?
git apply /tmp/seedv_$id.diff
echo "demo with change: rc=$with   without: rc=$without"
PYTHONPATH=$wt/src python3 - <<PY
import json, subprocess, tempfile, os, xml.etree.ElementTree as ET
base = json.load(open('/root/.vp/BASELINE.json'))
out = tempfile.mktemp(suffix='.xml')
cmd = base['cmd'].replace('<file>', out).replace('cd /repo', 'cd $wt')
env = dict(os.environ); env['PYTHONPATH'] = '$wt/src'
subprocess.run(cmd, shell=True, stdout=subprocess.DEVNULL, stderr=subprocess.DEVNULL, env=env)
passed = set()
for tc in ET.parse(out).getroot().iter('testcase'):
    if not any(ch.tag in ('failure', 'error', 'skipped') for ch in tc):
        passed.add(f"{tc.get('classname')}::{tc.get('name')}")
os.unlink(out)
want = set(base['stable_pass'])
print('baseline stable_pass', len(want), 'passing with change', len(passed), 'missing', sorted(want - passed)[:5])
PY
