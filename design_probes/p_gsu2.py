import ast, pathlib
from asttokens.util import Token
import inline_snapshot._rewrite_code as RC
from inline_snapshot._change import generic_sequence_update
from inline_snapshot._rewrite_code import ChangeRecorder, SourcePosition

FILE = pathlib.Path(__file__).parent / "proj" / "tmpl_a.py"

class Src:
    filename = str(FILE)

def tok(l0, c0, l1, c1, s="x"):
    return Token(1, s, (l0, c0), (l1, c1), "", 0, 0, 0)

def check(p0: int, p1: int, p2: int, p3: int, p4: int, p5: int, p6: int, p7: int,
          d0: bool, d1: bool, d2: bool, i0: bool, i1: bool, i2: bool, i3: bool, tup: bool) -> bool:
    """
    pre: d0 and not d1 and d2 and i0 and not i1 and i2 and i3 and tup
    pre: 0 <= p0 < p1 <= p2 < p3 < p4 < p5 < p6 < p7 < 100
    post: _
    """
    # layout: [ e0 , e1 , e2 ]   on one line; brace_left=(p0,p1) e0=(p1..p2]...
    left = tok(1, p0, 1, p0 + 1, "[")
    e = [(tok(1, p1, 1, p2), tok(1, p1, 1, p2)), (tok(1, p3, 1, p4), tok(1, p3, 1, p4)), (tok(1, p5, 1, p6), tok(1, p5, 1, p6))]
    right = tok(1, p7, 1, p7 + 1, "]")
    dele = [d0, d1, d2]
    elems = [None if d else x for d, x in zip(dele, e)]
    ins = {}
    for k, b in enumerate([i0, i1, i2, i3]):
        if b:
            ins[k] = ["N"]
    rec = ChangeRecorder()
    parent = ast.Tuple(elts=[], ctx=ast.Load()) if tup else ast.List(elts=[], ctx=ast.Load())
    generic_sequence_update(Src, parent, (left, right), elems, ins, rec)
    reps = sorted(rec.get_source(Src.filename).replacements)
    lo = SourcePosition(1, p0 + 1); hi = SourcePosition(1, p7)
    for r in reps:
        if not (lo <= r.range.start and r.range.end <= hi):
            return False
        for d, (a, b) in zip(dele, e):
            if not d:
                # kept element untouched
                s = SourcePosition(*a.start); t = SourcePosition(*b.end)
                if r.range.start < t and s < r.range.end:
                    return False
    return True
