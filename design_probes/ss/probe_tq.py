import sys, time, z3, itertools
from strsym import *
from strsym import _e
NS = load("/repo/src/inline_snapshot/_utils.py", {"_str_literal_helper", "triple_quote"})
triple_quote = NS["triple_quote"]

def hexv(c): return z3.If(c <= 57, c - 48, z3.If(c <= 70, c - 55, c - 87))
def decode(lit):
    """model of CPython's evaluation of a triple-quoted str literal (no prefix); lit: SymStr"""
    q = lit[:3]
    assert bool(q == '"""') or bool(q == "'''")
    assert bool(lit[-3:] == q) and len(lit) >= 6
    body = lit.chars[3:-3]; out = []; i = 0; n = len(body)
    def is_(c, ch): return branch(ceq(c, ord(ch)))
    run_q = 0
    while i < n:
        c = body[i]
        # the delimiter must not appear unescaped inside
        if branch(ceq(c, q.chars[0])):
            run_q += 1
            assert run_q < 3, "delimiter inside literal"
            out.append(c); i += 1; continue
        run_q = 0
        if is_(c, "\\"):
            assert i + 1 < n, "dangling backslash"
            d = body[i + 1]
            if is_(d, "\n"): i += 2
            elif is_(d, "\\"): out.append(92); i += 2
            elif is_(d, "'"): out.append(39); i += 2
            elif is_(d, '"'): out.append(34); i += 2
            elif is_(d, "n"): out.append(10); i += 2
            elif is_(d, "r"): out.append(13); i += 2
            elif is_(d, "t"): out.append(9); i += 2
            elif is_(d, "x"): out.append(hexv(_e(body[i+2])) * 16 + hexv(_e(body[i+3]))); i += 4
            elif is_(d, "u"):
                v = 0
                for k in range(4): v = v * 16 + hexv(_e(body[i+2+k]))
                out.append(v); i += 6
            elif is_(d, "U"):
                v = 0
                for k in range(8): v = v * 16 + hexv(_e(body[i+2+k]))
                out.append(v); i += 10
            else: raise AssertionError("unmodelled escape")
        elif is_(c, "\r"):
            raise AssertionError("raw CR in source literal")
        else:
            out.append(c); i += 1
    return SymStr(out)

DICT = ["'''", '"""', "\n", " \n", "\\", "'", '"', " ", "\t", "\r"]
def run_shape(shape):
    n = [0]
    def make():
        chars = []; cons = []
        for seg in shape:
            if seg is None:
                v = z3.Int(f"c{len(chars)}"); chars.append(v)
                cons += [v >= 0, v < 0x110000, z3.Or(v < 0xD800, v >= 0xE000)]
            else: chars += [ord(ch) for ch in seg]
        return SymStr(chars), cons
    return explore(make, lambda s: triple_quote(s), lambda s, lit: decode(lit) == s)

# translator validation on concrete strings
import ast as _ast
from inline_snapshot._utils import triple_quote as real_tq
for t in ["a\nb", " \n", "\x00ሴ\U0001F600x\\", "a\rb\n\n", 'x"', "x'", "'''x", '"""\n']:
    CTX = Ctx(); import strsym; strsym.CTX = CTX
    lit = triple_quote(SymStr([ord(c) for c in t]))
    assert lit.concrete(None) == real_tq(t), (t, lit.concrete(None), real_tq(t))
    assert decode(lit).concrete(None) == _ast.literal_eval(real_tq(t)) == t

k = int(sys.argv[1])
t0 = time.time(); tot = dict(paths=0, queries=0, qtime=0.0); cex = []; shapes = 0
for shape in itertools.product([None] + DICT, repeat=k):
    st = run_shape(shape); shapes += 1
    for key in tot: tot[key] += st[key]
    for c in st["cex"]:
        cex.append(c)
print("k", k, "shapes", shapes, tot, "wall", round(time.time() - t0, 1))
seen = set()
for c in cex:
    if repr(c) not in seen:
        seen.add(repr(c)); print("CEX", repr(c))
        if len(seen) > 12: break
