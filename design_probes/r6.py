import time, sys
from crosshair.core_and_libs import analyze_function, run_checkables
from crosshair.options import AnalysisOptionSet, AnalysisKind
import importlib
m = importlib.import_module(sys.argv[1])
opts = AnalysisOptionSet(per_condition_timeout=float(sys.argv[3]), per_path_timeout=60.0, report_all=True, analysis_kind=[AnalysisKind.PEP316])
t=time.time()
msgs = run_checkables(analyze_function(getattr(m, sys.argv[2]), opts))
print(round(time.time()-t,1), [(x.state.name, x.message[:300]) for x in msgs])
