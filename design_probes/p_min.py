from inline_snapshot import snapshot
from inline_snapshot._global_state import snapshot_env
from inline_snapshot._flags import Flags

def check_min(old: int, x0: int, x1: int, fix: bool, trim: bool) -> bool:
    """
    post: _
    """
    with snapshot_env() as st:
        fl = set()
        if fix: fl.add("fix")
        if trim: fl.add("trim")
        st.update_flags = Flags(fl)
        res = []
        for x in (x0, x1):
            res.append(x <= snapshot(old))
        st.active = False
        snaps = list(st.snapshots.values())
        if len(snaps) != 1:
            return False
        s = snaps[0]._value
        if s._new_value != max(x0, x1):
            return False
        if not fix:
            if res != [x0 <= old, x1 <= old]:
                return False
        return True

# warm executing caches
assert check_min(3, 1, 5, False, False)
