import ue_codec
from typing import List
from inline_snapshot._utils import _str_literal_helper

def check1(c: int) -> bool:
    """
    pre: 0 <= c < 0x110000 and not (0xD800 <= c < 0xE000)
    post: _
    """
    s = chr(c)
    esc, quotes = _str_literal_helper(s, quote_types=['"""', "'''"])
    return len(quotes) >= 1
