import ast, os, sys, token as _token, pathlib, types
import pytest
import inline_snapshot.pytest_plugin as P
import inline_snapshot._utils as U
import inline_snapshot._source_file as SF
import inline_snapshot._rewrite_code as RC
import inline_snapshot._adapter.value_adapter as VA
import inline_snapshot._snapshot.undecided_value as UV
import inline_snapshot._snapshot.min_max_value as MM
import inline_snapshot._snapshot.collection_value as CV
from inline_snapshot._global_state import state

for v in ("CI","GITHUB_ACTIONS"): os.environ.pop(v, None)

class Env:
    ns = {}; ph = {}; n = 0; written = {}

class SymTokens(list):
    def __init__(self, v):
        super().__init__([U.simple_token(_token.NAME, "<sym>")]); self.v = v
    def _same(self, other):
        toks = list(other)
        if len(toks) == 1 and toks[0].type == _token.NAME and toks[0].string in Env.ns and toks[0].string.startswith("c"):
            return Env.ns[toks[0].string] == self.v
        return False
    def __eq__(self, other): return self._same(other)
    def __ne__(self, other): return not self._same(other)

def value_to_token(v): return SymTokens(v)
_real_ttc = SF.SourceFile._token_to_code
def _token_to_code(self, toks):
    if not isinstance(toks, SymTokens): return _real_ttc(self, toks)
    name = f"__V{Env.n}__"; Env.n += 1; Env.ph[name] = toks.v; return name
for m in (U, SF, VA, UV, MM, CV): m.value_to_token = value_to_token
SF.SourceFile._token_to_code = _token_to_code
SF.SourceFile._value_to_code = lambda self, v: _token_to_code(self, value_to_token(v))
RC.format_code = lambda text, filename: text + "#"
SF.format_code = lambda text, filename: text

class FakeFile:
    def __init__(self, name): self.name = name; self.data = b""
    def write(self, b): self.data += b
    def __enter__(self): return self
    def __exit__(self, *a): Env.written[str(self.name)] = self.data.decode()
def fake_open(name, mode):
    assert mode == "bw"
    return FakeFile(name)
RC.open = fake_open

class NullConsole:
    is_terminal = False
    def __init__(self, *a, **k): pass
    def print(self, *a, **k): pass
    def rule(self, *a, **k): pass
P.Console = NullConsole
P.Panel = lambda *a, **k: None
P.Syntax = lambda *a, **k: None

class Capture:
    def suspend_global_capture(self, in_=False): pass
    def resume_global_capture(self): pass
class PM:
    def getplugin(self, name): return Capture()

ROOT = pathlib.Path(__file__).parent / "proj"
def make_config(flagstr):
    c = types.SimpleNamespace()
    c.rootpath = ROOT
    c.option = types.SimpleNamespace(inline_snapshot=flagstr, numprocesses=None)
    c.pluginmanager = PM()
    return c

TMPL = ROOT / "tmpl_a.py"
CODE = compile(TMPL.read_text(), str(TMPL), "exec")

def session(x0, x1, x2, c0, c1, c2, create, fix, trim):
    Env.ns = {"x0": x0, "x1": x1, "x2": x2, "c0": c0, "c1": c1, "c2": c2}; Env.ph = {}; Env.n = 0; Env.written = {}
    flags = [n for n, b in (("create", create), ("fix", fix), ("trim", trim)) if b]
    cfg = make_config(",".join(flags) if flags else "report")
    old = os.getcwd(); os.chdir(ROOT)
    try:
        P.pytest_configure(cfg)
        g = {"__name__": "tmpl_a", "__file__": str(TMPL), "x0": x0, "x1": x1, "x2": x2, "c0": c0, "c1": c1, "c2": c2}
        exec(CODE, g)
        req = types.SimpleNamespace(keywords={})
        fx = P.snapshot_check._get_wrapped_function()(req)
        next(fx)
        outcome = "passed"
        try:
            g["test_a"]()
        except AssertionError:
            outcome = "failed"
        try:
            next(fx)
        except StopIteration:
            pass
        except BaseException as e:
            if type(e).__name__ == "Failed": outcome = "error" if outcome == "passed" else outcome
            else: raise
        sess = types.SimpleNamespace(config=cfg)
        P.pytest_sessionfinish(sess, 0)
    finally:
        os.chdir(old)
    return outcome, Env.written.get(str(TMPL))

def snap_args(text):
    return [ (c.args[0] if c.args else None) for c in ast.walk(ast.parse(text)) if isinstance(c, ast.Call) and isinstance(c.func, ast.Name) and c.func.id == "snapshot"]

def check(x0: int, x1: int, x2: int, c0: int, c1: int, c2: int, create: bool, fix: bool, trim: bool) -> bool:
    """
    post: _
    """
    try:
        outcome, text = session(x0, x1, x2, c0, c1, c2, create, fix, trim)
    except TypeError:
        import traceback; traceback.print_exc(); raise
    if outcome == "passed":
        return False   # first snapshot is empty: must never be green
    if text is None:
        return True
    ns = {**Env.ns, **Env.ph}
    a = snap_args(text)
    vals = [None if n is None else eval(ast.get_source_segment(text, n), ns) for n in a]
    ok = True
    if create: ok = ok and vals[0] == x0
    else: ok = ok and a[0] is None
    if fix: ok = ok and x1 <= vals[1] and x2 in vals[2]
    return ok

print(session(1, 2, 3, 1, 2, 9, True, True, False))
check(1, 2, 3, 1, 2, 9, True, True, False); check(1, 2, 3, 1, 2, 9, False, False, True); check(1, 2, 3, 1, 2, 9, False, False, False)
