import ast
from dataclasses import dataclass, field
from inline_snapshot import snapshot, Is
from inline_snapshot._global_state import snapshot_env
from inline_snapshot._flags import Flags
from inline_snapshot._change import apply_all
from inline_snapshot._rewrite_code import ChangeRecorder
import inline_snapshot._code_repr as CR
import inline_snapshot._format as F
import inline_snapshot._adapter.adapter as AD
import black, builtins
from crosshair.core import CrossHairValue
from crosshair.tracers import NoTracing

class Env:
    ns = {}; ph = {}; n = 0

_orig_repr = CR.real_repr
def sym_repr(v):
    with NoTracing():
        is_sym = isinstance(v, CrossHairValue)
    if not is_sym:
        return _orig_repr(v)
    for name, val in Env.ns.items():
        if name.startswith("c") and val == v:
            return name
    name = f"V{Env.n}_"; Env.n += 1; Env.ph[name] = v
    return name
CR.real_repr = sym_repr
_mode = black.FileMode()
F.file_mode_for_path = lambda path: _mode
def fast_compile(*a, **k):
    with NoTracing():
        return builtins.compile(*a, **k)
AD.compile = fast_compile

@dataclass
class P:
    a: int
    b: int = 5
    c: list = field(default_factory=list)

def run(c0: int, c1: int, x0: int, x1: int, x2: int):
    Env.ns = {"c0": c0, "c1": c1, "P": P, "Is": Is}; Env.ph = {}; Env.n = 0
    with snapshot_env() as st:
        st.update_flags = Flags({"fix"})
        new = P(a=x0, b=x1, c=[x2])
        r = snapshot(P(a=c0, b=Is(c1))) == new
        st.active = False
        changes = []
        for s in st.snapshots.values():
            changes += list(s._changes())
        rec = ChangeRecorder()
        apply_all([c for c in changes if c.flag == "fix"], rec)
        for f in rec.files():
            return f.new_code(), new
        return None, new

def snapshot_arg(text):
    for node in ast.walk(ast.parse(text)):
        if isinstance(node, ast.FunctionDef) and node.name == "run":
            for c in ast.walk(node):
                if isinstance(c, ast.Call) and isinstance(c.func, ast.Name) and c.func.id == "snapshot":
                    return ast.get_source_segment(text, c.args[0])

def check(c0: int, c1: int, x0: int, x1: int, x2: int) -> bool:
    """
    post: _
    """
    text, new = run(c0, c1, x0, x1, x2)
    if text is None:
        return False
    src = snapshot_arg(text)
    if "Is(c1)" not in src:
        return False
    ns = {}
    ns.update(Env.ns); ns.update(Env.ph)
    val = eval(src, ns)
    if c1 == x1:
        return val == new
    return val.a == new.a and val.c == new.c

print(run(1, 5, 2, 5, 3)[0].splitlines()[51])
print(check(1, 5, 2, 5, 3), check(1, 4, 1, 5, 3))
