import ast, sys, types, io, contextlib
from inline_snapshot.testing import Example
import inline_snapshot._code_repr as CR
import inline_snapshot._format as F
import black
from crosshair.core import CrossHairValue
from crosshair.tracers import NoTracing

class Env:
    ns = {}; ph = {}; n = 0

_orig_repr = CR.real_repr
def sym_repr(v):
    with NoTracing():
        is_sym = isinstance(v, CrossHairValue)
    if not is_sym:
        return _orig_repr(v)
    for name, val in Env.ns.items():
        if name.startswith("c") and val == v:
            return name
    name = f"V{Env.n}_"; Env.n += 1; Env.ph[name] = v
    return name
CR.real_repr = sym_repr
_mode = black.FileMode()
_real_fs = black.format_str
def _fs(text, *, mode):
    with NoTracing():
        return _real_fs(text, mode=mode)
black.format_str = _fs
F.file_mode_for_path = lambda path: _mode

import inline_snapshot.testing._example as EX, pathlib, shutil
class DetTmp:
    n = 0
    def __init__(self): pass
    def __enter__(self):
        with NoTracing():
            p = pathlib.Path("/tmp/verif-design-probes/scratch/inl"); 
            if p.exists(): shutil.rmtree(p)
            p.mkdir(parents=True)
        return str(p)
    def __exit__(self, *a): return False
EX.TemporaryDirectory = DetTmp
SV = types.ModuleType("verif_symvals")
sys.modules["verif_symvals"] = SV

T = '''from inline_snapshot import snapshot
from verif_symvals import *

def test_a():
    assert x0 <= snapshot(c0)
    assert x1 == snapshot()
'''

def run(x0, x1, c0, fix, create):
    Env.ns = {"x0": x0, "x1": x1, "c0": c0}; Env.ph = {}; Env.n = 0
    SV.x0 = x0; SV.x1 = x1; SV.c0 = c0
    SV.__all__ = ["x0", "x1", "c0"]
    flags = [n for n, b in (("fix", fix), ("create", create)) if b]
    with contextlib.redirect_stdout(io.StringIO()), contextlib.redirect_stderr(io.StringIO()):
        ex = Example(T)
        try:
            ex2 = ex.run_inline(["--inline-snapshot=" + ",".join(flags)])
        except AssertionError:
            return None
    return ex2.files["test_something.py"]

def check(x0: int, x1: int, c0: int, fix: bool, create: bool) -> bool:
    """
    post: _
    """
    text = run(x0, x1, c0, fix, create)
    if text is None:
        return True
    ns = {}
    ns.update(Env.ns); ns.update(Env.ph)
    args = [c.args for c in ast.walk(ast.parse(text)) if isinstance(c, ast.Call) and isinstance(c.func, ast.Name) and c.func.id == "snapshot"]
    ok = True
    if fix:
        ok = ok and x0 <= eval(ast.get_source_segment(text, args[0][0]), ns)
    if create:
        ok = ok and x1 == eval(ast.get_source_segment(text, args[1][0]), ns)
    else:
        ok = ok and not args[1]
    return ok

print(run(5, 1, 3, True, True))
print(check(5, 1, 3, True, True), check(5, 1, 3, False, False))

import inline_snapshot._problems as PR, inline_snapshot._format as FM, traceback
def _rp(msg):
    sys.__stderr__.write("PROBLEM: " + msg[:200] + "\n")
    traceback.print_exc(file=sys.__stderr__)
    PR.all_problems.add(msg)
FM.raise_problem = _rp
