import codecs
from typing import List
from crosshair.libimpl.builtinslib import SymbolicBytes
from crosshair.libimpl.encodings._encutil import StemEncoder

def _hx(d):
    return 48 + d if d < 10 else 87 + d

class UnicodeEscapeStem(StemEncoder):
    encoding_name = "unicode_escape"

    @classmethod
    def _encode_chunk(cls, string, start):
        b: List[int] = []
        for idx in range(start, len(string)):
            cp = ord(string[idx])
            if cp == 92: b += [92, 92]
            elif cp == 10: b += [92, 110]
            elif cp == 9: b += [92, 116]
            elif cp == 13: b += [92, 114]
            elif 32 <= cp < 127: b.append(cp)
            elif cp < 256: b += [92, 120, _hx(cp // 16), _hx(cp % 16)]
            elif cp < 65536: b += [92, 117, _hx(cp // 4096), _hx(cp // 256 % 16), _hx(cp // 16 % 16), _hx(cp % 16)]
            else: b += [92, 85, 48, 48, _hx(cp // 1048576 % 16), _hx(cp // 65536 % 16), _hx(cp // 4096 % 16), _hx(cp // 256 % 16), _hx(cp // 16 % 16), _hx(cp % 16)]
        return (SymbolicBytes(b), len(string), None)

    @classmethod
    def _decode_chunk(cls, byts, start):
        raise NotImplementedError

def search(name):
    if name in ("crosshair_unicode_escape", "crosshair_unicode-escape"):
        return UnicodeEscapeStem.getregentry()
    return None
codecs.register(search)
