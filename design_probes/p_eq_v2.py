import ast
from inline_snapshot import snapshot
from inline_snapshot._global_state import snapshot_env
from inline_snapshot._flags import Flags
from inline_snapshot._change import apply_all
from inline_snapshot._rewrite_code import ChangeRecorder
import inline_snapshot._code_repr as CR
import inline_snapshot._format as F
import black, black.files
from crosshair.core import CrossHairValue
from crosshair.tracers import NoTracing

class Env:
    ns = {}; ph = {}; n = 0

_orig_repr = CR.real_repr
def sym_repr(v):
    with NoTracing():
        is_sym = isinstance(v, CrossHairValue)
    if not is_sym:
        return _orig_repr(v)
    for name, val in Env.ns.items():
        if name.startswith("c") and val == v:
            return name
    name = f"__V{Env.n}__"; Env.n += 1; Env.ph[name] = v
    return name
CR.real_repr = sym_repr

_mode = black.FileMode()
_real_fs = black.format_str
def _fs(text, *, mode):
    with NoTracing():
        return _real_fs(text, mode=mode)
black.format_str = _fs
F.file_mode_for_path = lambda path: _mode

def run(c0: int, c1: int, c2: int, x0: int, x1: int, x2: int, n: int):
    Env.ns = {"c0": c0, "c1": c1, "c2": c2}; Env.ph = {}; Env.n = 0
    with snapshot_env() as st:
        st.update_flags = Flags({"fix"})
        new = [x0, x1, x2] if n == 3 else [x0, x1] if n == 2 else [x0] if n == 1 else []
        r = new == snapshot([c0, c1, c2])
        st.active = False
        changes = []
        for s in st.snapshots.values():
            changes += list(s._changes())
        rec = ChangeRecorder()
        apply_all([c for c in changes if c.flag == "fix"], rec)
        files = list(rec.files())
        if not files:
            return None, new
        return files[0].new_code(), new

def snapshot_args(text):
    tree = ast.parse(text)
    for node in ast.walk(tree):
        if isinstance(node, ast.FunctionDef) and node.name == "run":
            for c in ast.walk(node):
                if isinstance(c, ast.Call) and isinstance(c.func, ast.Name) and c.func.id == "snapshot":
                    return c.args[0]

def check(c0: int, c1: int, c2: int, x0: int, x1: int, x2: int, n: int) -> bool:
    """
    pre: n == 2
    post: _
    """
    text, new = run(c0, c1, c2, x0, x1, x2, n)
    if text is None:
        return new == [c0, c1, c2]
    arg = snapshot_args(text)
    ns = {}
    ns.update(Env.ns); ns.update(Env.ph)
    val = eval(ast.get_source_segment(text, arg), ns)
    return val == new

check(1, 2, 3, 1, 5, 3, 3)
t, _ = run(1, 2, 3, 1, 5, 3, 2)
print([l for l in t.splitlines() if "r = new ==" in l])
