import hashlib, pathlib, shutil
from inline_snapshot._external import DiscStorage, outsource, external, HashError
from inline_snapshot._global_state import snapshot_env
import inline_snapshot._config as CFG
from crosshair.tracers import NoTracing

DIR = pathlib.Path("/tmp/probe/scratch/st/external")
DATA = [b"a", b"b", b"c"]
H = [hashlib.sha256(d).hexdigest() for d in DATA]

def setup(p0, n0, p1, n1):
    with NoTracing():
        if DIR.exists(): shutil.rmtree(DIR)
    DIR.mkdir(parents=True)
    for i, (p, n) in enumerate(((p0, n0), (p1, n1))):
        if p: (DIR / (H[i] + ".bin")).write_bytes(DATA[i])
        if n: (DIR / (H[i] + "-new.bin")).write_bytes(DATA[i])

def listing():
    return sorted(f.name for f in DIR.iterdir() if f.name != ".gitignore")

def check(p0: bool, n0: bool, p1: bool, n1: bool, op: int, j: int) -> bool:
    """
    pre: not (p0 and n0) and not (p1 and n1) and 0 <= op < 3 and 0 <= j < 3
    post: _
    """
    setup(p0, n0, p1, n1)
    before = listing()
    with snapshot_env() as st:
        st.storage = DiscStorage(DIR)
        if op == 0:
            st.storage.prune_new_files()
            after = listing()
            return after == [x for x in before if "-new." not in x]
        if op == 1:
            data = DATA[0] if j == 0 else DATA[1] if j == 1 else DATA[2]
            h = H[0] if j == 0 else H[1] if j == 1 else H[2]
            e = outsource(data)
            after = listing()
            persisted = (h + ".bin") in before
            ok = e == external(h + ".bin")
            if persisted:
                return ok and after == before
            return ok and (h + "-new.bin") in after and (DIR / (h + "-new.bin")).read_bytes() == data and [x for x in after if x != h + "-new.bin"] == [x for x in before if x != h + "-new.bin"]
        if op == 2:
            h = H[0] if j == 0 else H[1] if j == 1 else H[2]
            st.storage.persist(h[:12] + "*.bin")
            after = listing()
            if (h + "-new.bin") in before:
                return (h + ".bin") in after and (h + "-new.bin") not in after and len(after) == len(before)
            return after == before
    return True
print(check(True, False, False, True, 2, 1), check(False, False, False, False, 1, 2))
