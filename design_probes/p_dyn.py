import ast, hashlib, pathlib, linecache
from inline_snapshot._global_state import snapshot_env
from inline_snapshot._flags import Flags
from inline_snapshot._change import apply_all
from inline_snapshot._rewrite_code import ChangeRecorder
import inline_snapshot._rewrite_code as RC
import inline_snapshot._code_repr as CR
import inline_snapshot._format as F
import black
from crosshair.core import CrossHairValue
from crosshair.tracers import NoTracing

SCR = pathlib.Path(__file__).parent / "scratch"

class Env:
    ns = {}; ph = {}; n = 0

_orig_repr = CR.real_repr
def sym_repr(v):
    with NoTracing():
        is_sym = isinstance(v, CrossHairValue)
    if not is_sym:
        return _orig_repr(v)
    for name, val in Env.ns.items():
        if name.startswith("c") and val == v:
            return name
    for name, val in Env.ph.items():
        if val is v:
            return name
    name = f"V{Env.n}_"; Env.n += 1; Env.ph[name] = v
    return name
CR.real_repr = sym_repr
_mode = black.FileMode()
F.file_mode_for_path = lambda path: _mode

T0 = '''from inline_snapshot import snapshot

def test_a():
    for x in xs:
        assert x <= snapshot(c0)
    for x in xs:
        assert x in snapshot([c1, c2])
'''

def materialize(text):
    with NoTracing():
        h = hashlib.sha1(text.encode()).hexdigest()[:12]
        p = SCR / f"m_{h}.py"
        if not p.exists():
            p.write_text(text)
        return p

def session(text, flags):
    p = materialize(text)
    with snapshot_env() as st:
        st.update_flags = Flags(set(flags))
        g = {"__name__": "m", "__file__": str(p)}
        for k, v in Env.ns.items(): g[k] = v
        for k, v in Env.ph.items(): g[k] = v
        exec(compile(text, str(p), "exec"), g)
        try:
            g["test_a"]()
        except AssertionError:
            pass
        st.active = False
        changes = []
        for s in st.snapshots.values():
            changes += list(s._changes())
        rec = ChangeRecorder()
        apply_all([c for c in changes if c.flag in flags], rec)
        for f in rec.files():
            return f.new_code()
        return text

def snap_vals(text):
    ns = {}
    for k, v in Env.ns.items(): ns[k] = v
    for k, v in Env.ph.items(): ns[k] = v
    out = []
    for c in ast.walk(ast.parse(text)):
        if isinstance(c, ast.Call) and isinstance(c.func, ast.Name) and c.func.id == "snapshot":
            out.append(eval(ast.get_source_segment(text, c.args[0]), ns))
    return out

def check(x0: int, x1: int, c0: int, c1: int, c2: int, order: bool) -> bool:
    """
    post: _
    """
    Env.ns = {"xs": [x0, x1], "c0": c0, "c1": c1, "c2": c2}; Env.ph = {}; Env.n = 0
    both = session(T0, ["fix", "trim"])
    a, b = ("fix", "trim") if order else ("trim", "fix")
    t1 = session(T0, [a])
    t2 = session(t1, [b])
    v_both = snap_vals(both); v_seq = snap_vals(t2)
    return v_both[0] == v_seq[0] and sorted(v_both[1]) == sorted(v_seq[1])

print(check(1, 5, 3, 1, 9, True), check(1, 2, 3, 1, 9, False))
