import io, contextlib, traceback
from inline_snapshot.testing import Example
cases = {
 "inner_fix": "from inline_snapshot import snapshot\ndef test_a():\n    assert [1, 2] == snapshot([snapshot(1), 3])\n",
 "inner_align": "from inline_snapshot import snapshot\ndef test_a():\n    assert [0, 1, 2] == snapshot([snapshot(1), 3])\n",
 "parent_replaced": "from inline_snapshot import snapshot\ndef test_a():\n    assert 5 == snapshot([snapshot(1), 3])\n",
 "raise_in_test": "from inline_snapshot import snapshot\ndef test_a():\n    assert 1 == snapshot(2)\n    raise ValueError()\n    assert 1 == snapshot()\n",
 "fail_before": "from inline_snapshot import snapshot\ndef test_a():\n    s = snapshot(5)\n    assert 1 <= snapshot(0)\n    assert 3 <= s\n",
 "minmax_unused": "from inline_snapshot import snapshot\ns = snapshot(5)\ndef test_a():\n    pass\n",
 "cmp_raises": "from inline_snapshot import snapshot\ndef test_a():\n    assert 'a' <= snapshot(5)\n",
 "dict_inner": "from inline_snapshot import snapshot\ndef test_a():\n    assert {'a': 1} == snapshot({'a': snapshot(2)})\n",
}
for name, src in cases.items():
    for flags in ["", "fix", "create,fix,trim,update"]:
        buf = io.StringIO()
        try:
            with contextlib.redirect_stdout(buf), contextlib.redirect_stderr(buf):
                e = Example(src).run_inline(["--inline-snapshot=" + flags] if flags else [], raises=None)
            print(name, repr(flags), "OK", repr(e.files["test_something.py"].split("def test_a():")[-1][:70]))
        except BaseException as ex:
            tb = traceback.extract_tb(ex.__traceback__)[-1]
            print(name, repr(flags), "EXC", type(ex).__name__, str(ex)[:80].replace("\n"," "), f"@{tb.filename.split('/')[-1]}:{tb.lineno}")
