import os, types, pathlib
import pytest
import inline_snapshot.pytest_plugin as P
from inline_snapshot._global_state import state, leave_snapshot_context
from inline_snapshot._flags import Flags

for v in ("CI","GITHUB_ACTIONS"): os.environ.pop(v, None)
class NullConsole:
    is_terminal = False
    def __init__(self, *a, **k): pass
    def print(self, *a, **k): pass
    def rule(self, *a, **k): pass
P.Console = NullConsole
P.pydantic_fix = lambda: None
P.fix_pytest_diff = lambda: None
ROOT = pathlib.Path(__file__).parent / "proj"
NAMES = ["create", "fix", "trim", "update", "report", "review", "short-report", "disable"]
CATS = {"create", "fix", "trim", "update"}

def configure(bits, cli_present, tty, nproc):
    NullConsole.is_terminal = tty
    flagstr = ",".join(n for n, b in zip(NAMES, bits) if b) if cli_present else None
    cfg = types.SimpleNamespace(rootpath=ROOT, option=types.SimpleNamespace(inline_snapshot=flagstr, numprocesses=nproc))
    try:
        P.pytest_configure(cfg)
    except pytest.UsageError as e:
        leave_snapshot_context()
        return "usage", None, None
    st = state()
    res = ("ok", st.active, set(st.update_flags.to_set()))
    leave_snapshot_context()
    return res

def check(b0: bool, b1: bool, b2: bool, b3: bool, b4: bool, b5: bool, b6: bool, b7: bool, cli: bool, tty: bool, xd: bool) -> bool:
    """
    post: _
    """
    bits = [b0, b1, b2, b3, b4, b5, b6, b7]
    kind, active, upd = configure(bits, cli, tty, 2 if xd else None)
    # model from docs
    if cli:
        F = {n for n, b in zip(NAMES, bits) if b}
        if xd and F - {"disable"}: return kind == "usage"
    else:
        F = {"create", "review"} if tty else {"report"}
    if "disable" in F and F != {"disable"}: return kind == "usage"
    if kind != "ok": return False
    if xd: return active is False
    if "review" in F: return active and upd == CATS
    return active == ("disable" not in F) and upd == (F & CATS)

print(check(True, False, False, False, False, False, False, False, True, False, False))
