import ue_codec
import codecs, time
from typing import List
from inline_snapshot._utils import triple_quote, _str_literal_helper

HEX = "0123456789abcdef"

def py_unicode_escape(s):
    # environment model of CPython's unicode_escape codec (str -> ascii text)
    out = []
    for ch in s:
        cp = ord(ch)
        if ch == "\\": out.append("\\\\")
        elif ch == "\n": out.append("\\n")
        elif ch == "\t": out.append("\\t")
        elif ch == "\r": out.append("\\r")
        elif 32 <= cp < 127: out.append(ch)
        elif cp < 256: out.append("\\x" + HEX[cp // 16] + HEX[cp % 16])
        elif cp < 65536: out.append("\\u" + HEX[cp // 4096] + HEX[cp // 256 % 16] + HEX[cp // 16 % 16] + HEX[cp % 16])
        else: out.append("\\U" + "".join(HEX[cp // (16 ** k) % 16] for k in range(7, -1, -1)))
    return "".join(out)

def hexval(c):
    i = HEX.find(c.lower())
    return i

def decode_triple(lit):
    # environment model: value of a triple quoted literal token (no prefix)
    q = lit[:3]
    assert q in ('"""', "'''") and lit.endswith(q) and len(lit) >= 6
    body = lit[3:-3]
    out = []
    i = 0
    n = len(body)
    while i < n:
        c = body[i]
        if c == "\\":
            d = body[i + 1]
            if d == "\n": i += 2
            elif d == "\\": out.append("\\"); i += 2
            elif d == "'": out.append("'"); i += 2
            elif d == '"': out.append('"'); i += 2
            elif d == "n": out.append("\n"); i += 2
            elif d == "r": out.append("\r"); i += 2
            elif d == "t": out.append("\t"); i += 2
            elif d == "x":
                out.append(chr(hexval(body[i + 2]) * 16 + hexval(body[i + 3]))); i += 4
            elif d == "u":
                v = 0
                for k in range(4): v = v * 16 + hexval(body[i + 2 + k])
                out.append(chr(v)); i += 6
            elif d == "U":
                v = 0
                for k in range(8): v = v * 16 + hexval(body[i + 2 + k])
                out.append(chr(v)); i += 10
            else:
                raise ValueError("unmodelled escape")
        else:
            out.append(c); i += 1
    return "".join(out)

def check_tq(cs: List[int]) -> bool:
    """
    pre: len(cs) == 2 and all(0 <= c < 0x110000 and not (0xD800 <= c < 0xE000) for c in cs)
    post: _
    """
    s = "".join([chr(c) for c in cs])
    lit = triple_quote(s)
    return decode_triple(lit) == s

import ast
for t in ["a\nb", " \n", "\x00ሴ\U0001F600x\\", "a\rb\n\n", 'x"', "x'"]:
    assert decode_triple(triple_quote(t)) == t == ast.literal_eval(triple_quote(t)), t
    assert py_unicode_escape(t) == t.encode("unicode_escape").decode("ascii"), t
