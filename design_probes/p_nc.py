import types
import inline_snapshot._rewrite_code as RC
import inline_snapshot._config as CFG
from inline_snapshot._rewrite_code import SourceFile, Replacement, SourceRange, SourcePosition

class Txt:
    def __init__(self, i): self.i = i
    def __eq__(self, o): return isinstance(o, Txt) and self.i == o.i
    def __ne__(self, o): return not self.__eq__(o)

class W:
    table = []; text = None; replaced = None; fcalls = 0

class FakePath:
    def read_text(self, enc): return W.text

def fake_format(text, filename):
    W.fcalls += 1
    i = text.i
    # finite table lookup without indexing by a symbolic int
    for k, v in enumerate(W.table):
        if i == k: return Txt(v)
    raise AssertionError
RC.format_code = fake_format
RC.LineNumbers = lambda code: types.SimpleNamespace(line_to_offset=lambda l, c: 0)
RC.asttokens = types.SimpleNamespace(util=types.SimpleNamespace(replace=lambda code, reps: W.replaced))

def check(f0: int, f1: int, f2: int, f3: int, t: int, r: int, cmd: bool) -> bool:
    """
    pre: 0 <= f0 < 4 and 0 <= f1 < 4 and 0 <= f2 < 4 and 0 <= f3 < 4 and 0 <= t < 4 and 0 <= r < 4
    post: _
    """
    tab = [f0, f1, f2, f3]
    # idempotent formatter
    for k in range(4):
        fk = tab[k]
        ok = False
        for j in range(4):
            if fk == j and tab[j] == j: ok = True
        if not ok: return True
    W.table = tab; W.text = Txt(t); W.replaced = Txt(r); W.fcalls = 0
    CFG.config.format_command = "fmt" if cmd else None
    try:
        sf = SourceFile(FakePath())
        out = sf.new_code()
    finally:
        CFG.config.format_command = None
    def F(i):
        for k in range(4):
            if i == k: return tab[k]
    clean = F(t) == t
    if cmd or clean:
        return out.i == F(r) and F(out.i) == out.i        # formatted, hence a fixed point
    return out.i == r                                     # untouched layout
print(check(0, 0, 2, 2, 0, 3, False), check(0, 0, 2, 2, 1, 3, False))
