from typing import List
from inline_snapshot._align import align, nw_align, add_x

def lcs_len(a, b):
    n, m = len(a), len(b)
    t = [[0]*(m+1) for _ in range(n+1)]
    for i in range(n):
        for j in range(m):
            if a[i] == b[j]:
                t[i+1][j+1] = t[i][j]+1
            else:
                t[i+1][j+1] = max(t[i][j+1], t[i+1][j])
    return t[n][m]

def check_align(a: List[int], b: List[int]) -> bool:
    """
    pre: len(a) <= 3 and len(b) <= 3
    post: _
    """
    d = align(a, b)
    ai = bi = 0
    matches = 0
    for c in d:
        if c == "m":
            if not (ai < len(a) and bi < len(b) and a[ai] == b[bi]):
                return False
            ai += 1; bi += 1; matches += 1
        elif c == "d":
            ai += 1
        elif c == "i":
            bi += 1
        else:
            return False
    if ai != len(a) or bi != len(b):
        return False
    return matches == lcs_len(a, b)
