import time, sys, collections, importlib
import crosshair.core as core
from crosshair.core_and_libs import analyze_function, run_checkables
from crosshair.options import AnalysisOptionSet, AnalysisKind
import crosshair.statespace as ss
# engine tuning: no short-circuiting of contract-bearing callees, no premature realization
core.consider_shortcircuit = lambda *a, **k: None
_fp = ss.StateSpace.fork_parallel
def fork_parallel(self, false_probability, desc=""):
    if desc.startswith("premature realize"): return False
    return _fp(self, false_probability, desc)
ss.StateSpace.fork_parallel = fork_parallel
m = importlib.import_module(sys.argv[1])
stats = collections.Counter()
opts = AnalysisOptionSet(per_condition_timeout=float(sys.argv[3]), per_path_timeout=60.0, report_all=True, analysis_kind=[AnalysisKind.PEP316], stats=stats)
t=time.time()
msgs = run_checkables(analyze_function(getattr(m, sys.argv[2]), opts))
print(round(time.time()-t,1), [(x.state.name, x.message[:300]) for x in msgs], dict(stats))
