from inline_snapshot import snapshot


def test_a():
    assert x0 == snapshot()
    assert x1 <= snapshot(c0)
    assert x2 in snapshot([c1, c2])
