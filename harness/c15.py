"""C15 - faults while rewriting never leave a half-written file or a dangling external.

D-plugin on a two-file project with an outsourced external; every environment call on the path changes-computed ->
files-written (formatter: black.format_str or the format-command subprocess; Path.read_text; Path.rename; open for
writing) goes through a fault proxy.  Symbolic: the index of the call that fails, the kind of failure (exception /
non-zero exit / unparsable output), the approved categories and the values.
"""
from __future__ import annotations

import ast
import re
import types

import inline_snapshot._config as CFG
import inline_snapshot._external as EXT
import inline_snapshot._format as FM
import inline_snapshot._global_state as GS
import inline_snapshot._rewrite_code as RC
from vlib import world
from vlib.common import Cond, PathLog, mkfn
from vlib.world import W

ID = "C15"
world.install_plugin_shims()

FILE_A = '''from inline_snapshot import snapshot, outsource

res = []
owner = "crème brûlée"  # café


def test_a():
    res.append(x0 == snapshot(c0))
    res.append([x0, x1] == snapshot([c0, c1]))
    res.append(outsource("hello") == snapshot())
'''
FILE_B = '''from inline_snapshot import snapshot

res = []
label = "naïve €"


def test_b():
    res.append(x1 <= snapshot(c1))
    res.append(x0 == snapshot())
'''


class Faults:
    at = -1
    kind = 0
    count = 0
    log = []
    fired = None

    @classmethod
    def tick(cls, site):
        """returns True if this call is the one that fails"""
        i = cls.count
        cls.count += 1
        cls.log.append(site)
        if i == cls.at:
            cls.fired = site
            return True
        return False


class _Run:
    def __init__(self, returncode, stdout, stderr=b""):
        self.returncode = returncode
        self.stdout = stdout
        self.stderr = stderr


GARBAGE = "def ((:\n"
KINDS = ["exception", "non-zero exit", "unparsable output", "killed: negative return code, truncated output", "exit status 0, output not UTF-8 (cp1252)", "exit status 0, empty output"]


def install_proxies(use_command):
    saved = {}
    import black

    saved["format_str"] = black.format_str
    real_fs = black.format_str

    def format_str(text, *, mode):
        if Faults.tick("black.format_str"):
            if Faults.kind == 2:
                return GARBAGE
            raise RuntimeError("injected: formatter crashed")
        return real_fs(text, mode=mode)

    black.format_str = format_str
    saved["sp"] = FM.sp

    def run(cmd, shell, input, capture_output):
        if Faults.tick("format-command"):
            if Faults.kind == 1:
                return _Run(1, b"", b"injected: formatter exit status 1")
            if Faults.kind == 2:
                return _Run(0, GARBAGE.encode())
            if Faults.kind == 3:
                # killed by a signal: negative return code, stdout truncated at a statement boundary (still valid Python)
                return _Run(-9, input.decode("utf-8").split("\n\n")[0].encode("utf-8") + b"\n", b"")
            if Faults.kind == 4:
                # exit status 0, but the output is written in another encoding (not UTF-8)
                import black as _b

                with world.NoTracing():
                    return _Run(0, saved["format_str"](input.decode("utf-8"), mode=_b.FileMode()).encode("cp1252", "replace"))
            if Faults.kind == 5:
                # exit status 0 and no output at all (a command that formats the file in place instead of stdin -> stdout)
                return _Run(0, b"")
            raise OSError("injected: cannot start the format-command")
        import black as _b

        with world.NoTracing():
            return _Run(0, saved["format_str"](input.decode("utf-8"), mode=_b.FileMode()).encode("utf-8"))

    FM.sp = types.SimpleNamespace(run=run)
    saved["open"] = RC.open

    def fopen(name, mode="r", *a, **k):
        if mode == "bw" and Faults.tick("open-for-write"):
            raise OSError("injected: cannot open the test file for writing")
        return saved["open"](name, mode, *a, **k)

    RC.open = fopen
    saved["pathlib"] = RC.pathlib

    class FPath(type(RC.pathlib.Path())):
        def read_text(self, *a, **k):
            if Faults.tick("read_text"):
                raise OSError("injected: cannot read the test file")
            return super().read_text(*a, **k)

    RC.pathlib = types.SimpleNamespace(Path=FPath)
    saved["ext_pathlib"] = EXT.pathlib

    class EPath(type(EXT.pathlib.Path())):
        def rename(self, target):
            if Faults.tick("rename"):
                raise OSError("injected: cannot rename the external")
            return super().rename(target)

    EXT.pathlib = types.SimpleNamespace(Path=EPath)
    saved["cmd"] = CFG.config.format_command
    return saved


def remove_proxies(saved):
    import black

    black.format_str = saved["format_str"]
    FM.sp = saved["sp"]
    RC.open = saved["open"]
    RC.pathlib = saved["pathlib"]
    EXT.pathlib = saved["ext_pathlib"]


def fault_case(use_command, at, kind, create, fix, vals):
    world.reset(dict(vals))
    flags = [n for n, b in (("create", create), ("fix", fix)) if b]
    kind = 0 if kind == 0 else (1 if kind == 1 else (2 if kind == 2 else (3 if kind == 3 else (4 if kind == 4 else 5))))
    Faults.at = at
    Faults.kind = kind
    Faults.count = 0
    Faults.log = []
    Faults.fired = None
    saved = install_proxies(use_command)
    pyproject = '[tool.inline-snapshot]\nformat-command="fmt {filename}"\n' if use_command else None
    try:
        r = world.plugin_session({"test_a.py": FILE_A, "test_b.py": FILE_B}, cli=",".join(flags) if flags else "report", pyproject=pyproject)
    finally:
        remove_proxies(saved)
    fired = Faults.fired
    ok = True
    why = ""
    texts = {}
    with world.NoTracing():
        for name in ("test_a.py", "test_b.py"):
            texts[name] = (r.root / name).read_text("utf-8")
    problems_reported = any(p.startswith("RULE [red]Problems") for p in r.printed)
    for name, text in texts.items():
        old = r.texts[name]
        with world.NoTracing():
            try:
                ast.parse(str(text))
                parses = True
            except SyntaxError:
                parses = False
        if not parses:
            ok, why = False, f"{name} is syntactically broken after a fault at {fired}"
            continue
        if text != old:
            # a complete new content: everything outside the snapshot arguments (and the inserted import) is still there
            with world.NoTracing():
                strip = lambda t_: str(t_).replace("\nfrom inline_snapshot import external\n", "")
                a_ = ast.dump(ast.parse(world.mask_snapshot_args(strip(old))))
                b_ = ast.dump(ast.parse(world.mask_snapshot_args(strip(text))))
            if a_ != b_:
                ok, why = False, f"{name}: content outside the snapshot arguments was lost or changed after a fault at {fired}"
        if text != old and create and fix:
            # a complete new content: with create+fix approved every snapshot of the rewritten file holds the observed value
            vals_ = world.snapshot_values(text, {"external": _external_probe})
            x0, x1, c1 = vals["x0"], vals["x1"], vals["c1"]
            if name == "test_a.py":
                good = len(vals_) == 3 and vals_[0] == x0 and vals_[1] == [x0, x1] and vals_[2] == "external:hello"
            else:
                good = len(vals_) == 2 and vals_[0] is not world.MISSING and x1 <= vals_[0] and vals_[1] == x0
            if not good:
                ok, why = False, f"{name}: new content is not complete/correct: {world.snapshot_arg_sources(text)}"
    # a formatter failure (crash / non-zero exit) degrades to unformatted but correct code plus a reported problem
    if fired in ("black.format_str", "format-command") and kind in (0, 1, 3, 5) and flags and r.finish_error is None:
        if not problems_reported:
            ok, why = False, "formatter failed but no problem was reported"
    # no test file references data that the next session would prune
    with world.NoTracing():
        for name, text in texts.items():
            for ref in re.findall(r'external\("([0-9a-f]+)\*?\.txt"\)', str(text)):
                hits = [x for x in r.storage if x.startswith(ref) and "-new." not in x]
                if len(hits) != 1:
                    ok, why = False, f"{name} references external {ref} which is not persisted (storage: {r.storage})"
    # the global state is popped whatever happened
    if GS._latest_global_states or GS.state().active:
        ok, why = False, "global snapshot state was not restored"
        while GS._latest_global_states:
            GS.leave_snapshot_context()
    PathLog.record(f"{use_command}{fired}{kind}{flags}{sorted(k for k, v in texts.items() if v != r.texts[k])}{type(r.finish_error).__name__}", nontrivial=fired is not None,
                   sample={"formatter": "format-command" if use_command else "black", "fault_at_call": fired, "kind": KINDS[kind], "flags": flags,
                           "files_rewritten": sorted(k for k, v in texts.items() if v != r.texts[k]), "session_end_error": type(r.finish_error).__name__ if r.finish_error else None, "why": why})
    return ok


def _external_probe(name):
    import hashlib

    h = hashlib.sha256(b"hello").hexdigest()
    m = re.fullmatch(r"([0-9a-f]+)\*?\.txt", name)
    return "external:hello" if m and h.startswith(m.group(1)) else "external:?"


GLB = {"fault_case": fault_case, "__name__": "harness.c15"}
VALS = ["x0", "x1", "c0", "c1"]
VD = "{" + ", ".join(f"{n!r}: {n}" for n in VALS) + "}"


def conditions(tier):
    conds = []
    for use_command in (False, True):
        for kind in ((0, 1, 2, 3, 4, 5) if use_command else (0,)):  # black is a library call: it raises or returns
            for lo, hi in (((0, 3), (4, 7), (8, 11), (12, 15), (16, 19), (20, 23), (24, 31), (32, 40)) if not use_command else ((0, 7), (8, 15), (16, 23), (24, 40))):
                name = f"fault_{'cmd' if use_command else 'black'}_k{kind}_at{lo}_{hi}"
                fn = mkfn(name, [("at", "int"), ("kind", "int"), ("create", "bool"), ("fix", "bool")] + [(n, "int") for n in VALS],
                          f"return fault_case({use_command}, at, kind, create, fix, {VD})", GLB, pre=[f"{lo} <= at <= {hi} and kind == {kind}"])
                conds.append(Cond(name, fn, timeout=1200, group="faults",
                                  bounds=f"formatter {'format-command' if use_command else 'black'}; the {lo}..{hi}-th environment call (format / read_text / rename / open-for-write, in execution order) fails with {['an exception', 'a non-zero exit status (exception for non-subprocess calls)', 'unparsable output (exception for non-formatter calls)', 'death by signal: negative return code and truncated but parsable output (exception for non-subprocess calls)', 'exit status 0 but output in cp1252 instead of UTF-8 (exception for non-subprocess calls)', 'exit status 0 and no output at all (exception for non-subprocess calls)'][kind]}; create/fix approved or not; 4 values symbolic"))
    tw = mkfn("fault_twin", [("at", "int"), ("kind", "int"), ("create", "bool"), ("fix", "bool")] + [(n, "int") for n in VALS], f"return fault_case(False, at, kind, create, fix, {VD})", GLB, pre=["at == 3 and kind == 0 and create and fix"], post="not _")
    conds.append(Cond("fault_twin", tw, timeout=60, twin=True))
    return conds


META = {
    "bounds": {"quick": "two-file project with one outsourced external; fault at any of the first 41 environment calls of the session end (a fault-free session makes fewer), 6 kinds (exception, non-zero exit, unparsable output, killed with truncated output, exit 0 with mis-encoded output, exit 0 with empty output), 2 formatter configurations, create/fix bits and 4 values symbolic",
               "thorough": "same"},
    "outside": "`write()` itself failing after the file was truncated (the property lists compute/format/apply faults); process kill; more files",
    "assumptions": ["fault proxies wrap black.format_str, the format-command subprocess, Path.read_text in _rewrite_code, Path.rename in _external and open(..., 'bw'); everything else runs for real on a scratch project directory",
                    "the format-command is a stub that formats with black (so that a clean file stays clean)"],
}

world.prewarm(lambda: fault_case(False, -1, 0, True, True, {"x0": 1, "x1": 2, "c0": 3, "c1": 4}), lambda: fault_case(True, 2, 1, True, True, {"x0": 1, "x1": 2, "c0": 3, "c1": 4}))
