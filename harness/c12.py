"""C12 - every string is written as a literal that reads back identically.

Engine B (vlib.strsym): the repo's _str_literal_helper / triple_quote (and the routing guard of value_to_token.map_string)
are taken from /repo/src/inline_snapshot/_utils.py on every run, a few AST node kinds are rewritten into runtime calls and
the function bodies are executed on vectors of z3 integer code points.  Obligation per path (z3, linear integer
arithmetic): decode(triple_quote(s)) == s, no AssertionError, the delimiter never occurs unescaped - where decode is an
executable model of CPython's evaluation of a triple-quoted literal, validated against ast.literal_eval.
"""
from __future__ import annotations

import ast
import itertools
import os
import time

import z3

from vlib import strsym as SS
from vlib.common import Cond, PathLog
from vlib.strsym import SymStr, _e, branch, ceq

ID = "C12"
from vlib.common import REPO_SRC

UTILS = REPO_SRC + "/inline_snapshot/_utils.py"
DICT = ["'''", '"""', "\n", " \n", "\\", "'", '"', " ", "\t", "\r"]


def load_repo_functions():
    ns = SS.load(UTILS, {"_str_literal_helper", "triple_quote"})
    # the routing guard of value_to_token.map_string: `isinstance(s, str) and (<guard>)`
    tree = ast.parse(open(UTILS).read())
    guard = None
    for node in ast.walk(tree):
        if isinstance(node, ast.FunctionDef) and node.name == "map_string":
            for n in ast.walk(node):
                if isinstance(n, ast.If) and isinstance(n.test, ast.BoolOp) and isinstance(n.test.op, ast.And):
                    vals = n.test.values
                    if isinstance(vals[0], ast.Call) and getattr(vals[0].func, "id", "") == "isinstance":
                        rest = vals[1] if len(vals) == 2 else ast.BoolOp(ast.And(), vals[1:])
                        guard = rest
    if guard is None:
        raise RuntimeError("unsupported: routing guard of value_to_token.map_string not found (refactored?)")
    guard_src = ast.unparse(guard)
    guard_fn = eval(compile(ast.Expression(ast.Lambda(ast.arguments([], [ast.arg("s")], None, [], [], None, []), guard)).__class__(
        body=ast.fix_missing_locations(ast.Lambda(args=ast.arguments(posonlyargs=[], args=[ast.arg(arg="s")], kwonlyargs=[], kw_defaults=[], defaults=[]), body=guard))), UTILS, "eval"))
    return ns["triple_quote"], guard_fn, guard_src


def hexv(c):
    return z3.If(c <= 57, c - 48, z3.If(c <= 70, c - 55, c - 87))


def decode(lit):
    """model of CPython's evaluation of a triple-quoted str literal token (no prefix); lit: SymStr"""
    q = lit[:3]
    assert bool(q == '"""') or bool(q == "'''"), "not a triple-quoted literal"
    assert len(lit) >= 6 and bool(lit[-3:] == q), "literal does not end with its delimiter"
    body = lit.chars[3:-3]
    out = []
    i = 0
    n = len(body)

    def is_(c, ch):
        return branch(ceq(c, ord(ch)))

    run_q = 0
    while i < n:
        c = body[i]
        if branch(ceq(c, q.chars[0])):
            run_q += 1
            assert run_q < 3, "delimiter occurs unescaped inside the literal"
            out.append(c)
            i += 1
            continue
        run_q = 0
        if is_(c, "\\"):
            assert i + 1 < n, "dangling backslash"
            d = body[i + 1]
            if is_(d, "\n"):
                i += 2
            elif is_(d, "\\"):
                out.append(92); i += 2
            elif is_(d, "'"):
                out.append(39); i += 2
            elif is_(d, '"'):
                out.append(34); i += 2
            elif is_(d, "n"):
                out.append(10); i += 2
            elif is_(d, "r"):
                out.append(13); i += 2
            elif is_(d, "t"):
                out.append(9); i += 2
            elif is_(d, "x"):
                out.append(hexv(_e(body[i + 2])) * 16 + hexv(_e(body[i + 3]))); i += 4
            elif is_(d, "u"):
                v = 0
                for k in range(4):
                    v = v * 16 + hexv(_e(body[i + 2 + k]))
                out.append(v); i += 6
            elif is_(d, "U"):
                v = 0
                for k in range(8):
                    v = v * 16 + hexv(_e(body[i + 2 + k]))
                out.append(v); i += 10
            else:
                raise AssertionError("unmodelled escape sequence")
        elif is_(c, "\r"):
            raise AssertionError("raw CR inside the literal (the tokenizer would turn it into LF)")
        elif is_(c, "\0"):
            raise AssertionError("raw NUL inside the literal")
        else:
            out.append(c)
            i += 1
    # a trailing run of the delimiter character directly before the closing delimiter would extend it
    assert run_q == 0, "literal body ends with an unescaped delimiter character"
    return SymStr(out)


def make_shape(shape):
    def make():
        chars = []
        cons = []
        for seg in shape:
            if seg is None:
                v = z3.Int(f"c{len(chars)}")
                chars.append(v)
                cons += [v >= 0, v < 0x110000]
            else:
                chars += [ord(ch) for ch in seg]
        return SymStr(chars), cons

    return make


def validate_translation(triple_quote_sym):
    """Serval-style: the rewritten functions on concrete strings must agree byte-for-byte with the unrewritten
    ones, and decode with ast.literal_eval."""
    from inline_snapshot._utils import triple_quote as real_tq

    corpus = ["a\nb", " \n", "\x00\u1234\U0001F600x\\", "a\rb\n\n", 'x"', "x'", "'''x", '"""\n', "a\n\nb ", "\t\n x", "é\n\x7f\x80\xa0\xad", "\\n\n", "a'''b\n", 'a"\nb"']
    try:
        import tests.test_string  # noqa
    except Exception:
        pass
    n = 0
    for t in corpus:
        SS.CTX = SS.Ctx()
        lit = triple_quote_sym(SymStr([ord(c) for c in t]))
        got = lit.concrete(None)
        want = real_tq(t)
        if got != want:
            raise RuntimeError(f"translator validation failed: {t!r}: symbolic run {got!r} != real {want!r}")
        try:
            ev = ast.literal_eval(want)
        except Exception:
            ev = None
        if ev is not None:
            dec = decode(lit).concrete(None)
            if dec != ev:
                raise RuntimeError(f"decode model disagrees with ast.literal_eval on {want!r}: {dec!r} != {ev!r}")
        n += 1
    return n


def known_region(s: str) -> bool:
    """region of the known finding C12-both-triple-quotes (see known_findings.json)"""
    if "'''" in s and '"""' in s and s:
        extra = '"' if s.count("'") >= s.count('"') else "'"
        return s[-1] == extra
    return False


def run_chunk(shapes, kf_active):
    triple_quote_sym, guard_fn, guard_src = load_repo_functions()
    nval = validate_translation(triple_quote_sym)
    tot = dict(paths=0, queries=0, qtime=0.0)
    cex = []
    t0 = time.time()
    for shape in shapes:
        extra_cons = []
        st = SS.explore(make_shape(shape), lambda s: triple_quote_sym(s), lambda s, lit: decode(lit) == s)
        for k in tot:
            tot[k] += st[k]
        for c in st["cex"]:
            cex.append(c[1] if isinstance(c, tuple) else c)
        PathLog.record(repr(shape), nontrivial=st["paths"] > 1, sample={"shape": [("<any code point>" if x is None else x) for x in shape], "paths": st["paths"], "queries": st["queries"]})
    new = []
    for c in cex:
        if kf_active and known_region(c):
            continue
        if c not in new:
            new.append(c)
    from vlib.common import PathLog as PL

    res = {"paths": tot["paths"], "solver": {"solver_queries": tot["queries"], "solver_s": round(tot["qtime"], 2), "unknown": 0},
           "path_log": {"entries": len(PL.entries), "distinct": sorted(set(PL.entries)), "nontrivial": sorted(PL.nontrivial), "samples": PL.samples},
           "functions": ["inline_snapshot/_utils.py:_str_literal_helper", "inline_snapshot/_utils.py:_str_literal_helper.<locals>.escape_char", "inline_snapshot/_utils.py:triple_quote",
                         f"inline_snapshot/_utils.py:value_to_token.<locals>.map_string (guard: {guard_src})"],
           "translator_validation_strings": nval, "known_region_models_skipped": len(cex) - len(new) if kf_active else 0}
    if new:
        res["status"] = "refuted"
        res["cex"] = {"args": [new[0]], "kwargs": {}}
        res["cex_message"] = f"decode(triple_quote(s)) != s or assertion for s = {new[0]!r} (and {len(new) - 1} more models: {new[1:5]!r})"
        res["cex_kind"] = "STRSYM"
    else:
        res["status"] = "confirmed"
    return res


SOURCE_FILE = REPO_SRC + "/inline_snapshot/_source_file.py"


def run_format_kernel(k):
    """SourceFile._format / _token_to_code's strip on a string literal with k arbitrary *plain* characters, with the
    formatter modelled as `identity + trailing newline` (what black does to `_ = "<plain text>"`): the code that is
    handed back must be exactly the literal - for every content (e.g. content that looks like the helper prefix)."""
    import types

    ns = SS.load(SOURCE_FILE, {"_format"}, extra_ns={
        "enforce_formatting": lambda: False,
        "_is_string_literal": lambda text: True,  # contract: the input is a lone string literal
        "format_code": lambda text, filename: text + "\n",
        "Path": lambda p: p,
    })
    fmt = ns["_format"]
    me = types.SimpleNamespace(_source=types.SimpleNamespace(filename="test_a.py"))

    def make():
        chars = [34]
        cons = []
        for i in range(k):
            v = z3.Int(f"p{i}")
            chars.append(v)
            cons += [v >= 32, v <= 126, v != 34, v != 92]
        chars.append(34)
        return SymStr(chars), cons

    st = SS.explore(make, lambda text: fmt(me, text).strip(), lambda text, out: out == text)
    PathLog.record(f"format{k}", nontrivial=True, sample={"kernel": "SourceFile._format on a string literal", "plain_characters": k, "paths": st["paths"], "queries": st["queries"]})
    res = {"paths": st["paths"], "solver": {"solver_queries": st["queries"], "solver_s": round(st["qtime"], 2), "unknown": 0},
           "path_log": {"entries": len(PathLog.entries), "distinct": sorted(set(PathLog.entries)), "nontrivial": sorted(PathLog.nontrivial), "samples": PathLog.samples},
           "functions": ["inline_snapshot/_source_file.py:SourceFile._format"]}
    cex = [c[1] if isinstance(c, tuple) else c for c in st["cex"]]
    if cex:
        res.update({"status": "refuted", "cex": {"args": [cex[0]], "kwargs": {}}, "cex_message": f"_format does not hand back the literal {cex[0]!r}", "cex_kind": "STRSYM"})
    else:
        res["status"] = "confirmed"
    return res


def all_shapes(tier):
    alphabet = [None] + DICT
    shapes = []
    if tier == "quick":
        for k in (1, 2):
            shapes += list(itertools.product(alphabet, repeat=k))
        # k = 3 with at most two arbitrary code points, k = 4 without arbitrary code points in the first position
        shapes += [s for s in itertools.product(alphabet, repeat=3)]
        shapes += [s for s in itertools.product(alphabet, repeat=4) if sum(x is None for x in s) <= 1]
    else:
        for k in (1, 2, 3):
            shapes += list(itertools.product(alphabet, repeat=k))
        shapes += [s for s in itertools.product(alphabet, repeat=4)]
        shapes += [s for s in itertools.product(alphabet, repeat=5) if sum(x is None for x in s) <= 1]
    return shapes


def conditions(tier):
    shapes = all_shapes(tier)
    kf_active = "C12-both-triple-quotes" in os.environ.get("VERIF_KF_ACTIVE", "").split(",")
    nchunks = 64 if tier == "quick" else 192
    chunks = [shapes[i::nchunks] for i in range(nchunks)]
    conds = []
    for i, ch in enumerate(chunks):
        if not ch:
            continue
        conds.append(Cond(f"strsym_chunk{i:02d}", (lambda ch=ch: run_chunk(ch, kf_active)), custom=True, timeout=1500, group="strsym",
                          bounds=f"{len(ch)} segment shapes (of {len(shapes)}); each segment an arbitrary code point 0..0x10FFFF or one of {DICT!r}"))
    for k in (4, 6) if tier == "quick" else (4, 6, 8):
        conds.append(Cond(f"format_literal_k{k}", (lambda k=k: run_format_kernel(k)), custom=True, timeout=900, group="format-kernel",
                          bounds=f"SourceFile._format on a double-quoted literal of {k} arbitrary plain characters (32..126 without quote and backslash); formatter modelled as identity + newline"))
    from harness import c12b

    conds += c12b.conditions(tier)
    return conds


def replay(tier, condname, cex):
    """R: the real, unrewritten functions on the concrete model."""
    if condname.startswith("format_literal"):
        # R: the literal through the real _value_to_code (real black)
        lit = cex["args"][0]
        s = ast.literal_eval(lit)
        from vlib import world

        world.install_plugin_shims()
        world.W.concrete = True
        world.reset({"obs": s})
        r = world.plugin_session("from inline_snapshot import snapshot\n\ndef test_a():\n    assert obs == snapshot()\n", cli="create")
        new = world.text_after(r)
        ok = world.passes_when_disabled(new)
        return {"violated": not ok, "detail": repr(world.snapshot_arg_sources(new))}
    if condname.startswith("strsym"):
        from inline_snapshot._utils import triple_quote, value_to_token

        s = cex["args"][0]
        detail = {}
        violated = False
        try:
            lit = triple_quote(s)
            back = ast.literal_eval(lit)
            detail["triple_quote"] = lit
            if back != s:
                violated = True
                detail["reads_back_as"] = back
        except Exception as e:
            violated = True
            detail["triple_quote_error"] = repr(e)
        routed = ("\n" in s and s[-1] != "\n") or s.count("\n") > 1
        detail["reaches_triple_quote_via_value_to_token"] = routed
        try:
            toks = value_to_token(s)
            detail["value_to_token"] = [t.string for t in toks]
            if ast.literal_eval(toks[0].string) != s:
                violated = True
        except Exception as e:
            detail["value_to_token_error"] = repr(e)
            violated = True
        return {"violated": violated, "detail": repr(detail)}
    from harness import c12b

    return c12b.replay(tier, condname, cex)


META = {
    "rule": "evaluations = execution paths of the repo's string functions explored by engine B; each path ends in one z3 obligation (unsat = holds for every code point assignment on that path); non-trivial = a segment shape with more than one path",
    "bounds": {"quick": "strings of k<=3 segments (all shapes), k=4 with at most one arbitrary code point; a segment is an arbitrary code point (0..0x10FFFF, surrogates included) or a dictionary entry ('''  \"\"\"  \\n  ' \\n'  \\\\  '  \"  space  tab  CR)",
               "thorough": "k<=4 all shapes, k=5 with at most one arbitrary code point; both tiers: 17 file-rewrite lines (existing non-ASCII / astral / multi-line literals before or at the replaced node) with symbolic int leaves and a symbolic choice among 6 written strings under every subset of create/fix/trim/update"},
    "outside": "strings that need more segments; single-line strings are rendered by CPython's repr (environment; the contract corpus c12b checks them through the real pipeline); the formatter's treatment of the literal (corpus only); bytes (always repr)",
    "assumptions": ["str.isprintable: exact table up to U+00A0 (read from the running interpreter), unconstrained boolean above (sound over-approximation)",
                    "decode = executable model of CPython's triple-quoted literal evaluation, validated against ast.literal_eval on every run",
                    "the rewritten functions are validated against the unrewritten ones on a concrete corpus on every run (translator validation)"],
}
