"""C04 - nothing is written without approval; exactly the approved categories apply.

Real pytest_addoption / pytest_configure / snapshot_check / pytest_sessionfinish in process (D-plugin).  Symbolic: the
membership bits of the flag set (CLI or INLINE_SNAPSHOT_DEFAULT_FLAGS), terminal or not, the review answers, the CI
variable index, PYCHARM_HOSTED, the xdist setting, xfail.  The test program is fixed: one pending change per category
plus one outsourced external (the subject is the gate, not the values).  Oracle: independent model of docs/pytest.md
and docs/configuration.md.
"""
from __future__ import annotations

import hashlib

from vlib import world
from vlib.common import Cond, PathLog, mkfn
from vlib.world import W

ID = "C04"
world.install_plugin_shims()

NAMES = ["create", "fix", "trim", "update", "report", "review", "short-report", "disable"]
CATS = ["create", "fix", "trim", "update"]
CI_VARS = ["CI", "bamboo.buildKey", "BUILD_ID", "BUILD_NUMBER", "BUILDKITE", "CIRCLECI", "CONTINUOUS_INTEGRATION", "GITHUB_ACTIONS",
           "HUDSON_URL", "JENKINS_URL", "TEAMCITY_VERSION", "TRAVIS"]

TEXT = '''from inline_snapshot import snapshot, outsource

res = []


def test_a():
    res.append(1 == snapshot())
    res.append(2 == snapshot(3))
    res.append(1 <= snapshot(5))
    res.append(4 == snapshot(2 + 2))
    res.append(outsource("hello") == snapshot())
'''
TEXT_B = '''from inline_snapshot import snapshot

res = []


def test_b():
    res.append(7 == snapshot(8))
'''
H = hashlib.sha256(b"hello").hexdigest()
U = hashlib.sha256(b"unused").hexdigest() + ".txt"  # a persisted external that no test file references
OLD_ARGS = [None, "3", "5", "2 + 2", None]
OLD_B = ["8"]
PYPROJECTS = {
    "none": None,
    "default_fix": '[tool.inline-snapshot]\ndefault-flags=["fix"]\n',
    "tui_trim": '[tool.inline-snapshot]\ndefault-flags=["report"]\ndefault-flags-tui=["trim", "review"]\n',
    "shortcut": '[tool.inline-snapshot]\ndefault-flags=["create"]\n[tool.inline-snapshot.shortcuts]\nfixit=["fix","trim"]\n',
}


def model(F, *, cli_present, xd, ci, answers, xfail):
    """-> ("usage",) | ("ok", active, approved set)   F = resolved flag set"""
    if cli_present and xd and (F - {"disable"}):
        return ("usage",)
    if F - set(NAMES):
        return ("usage",)
    if "disable" in F and F != {"disable"}:
        return ("usage",)
    active = not (xd or ci or "disable" in F)
    if not active or "short-report" in F or xfail:
        return ("ok", active, set())
    approved = set()
    ans = list(answers)
    for c in CATS:  # every category has a pending change in the fixed program
        if not ({"review", "report", c} & F):
            continue
        if c in F:
            approved.add(c)
        elif "review" in F:
            if ans.pop(0):
                approved.add(c)
    return ("ok", active, approved)


def expected_args(approved):
    a = list(OLD_ARGS)
    if "create" in approved:
        a[0] = "1"
        a[4] = f'external("{H[:12]}*.txt")'
    if "fix" in approved:
        a[1] = "2"
    if "trim" in approved:
        a[2] = "1"
    if "update" in approved:
        a[3] = "4"
    return a


def gate_case(bits, source, tty, answers, ci_idx=0, pycharm=False, xd=0, xfail=False, pyproject="none", shortcut=None):
    """source: 'cli' | 'env' | 'default' """
    world.reset({})
    flagstr = ",".join(n for n, b in zip(NAMES, bits) if b)
    F_src = {n for n, b in zip(NAMES, bits) if b}
    cli = flagstr if source == "cli" else None
    env = flagstr if source == "env" else None
    nproc = None if xd == 0 else (0 if xd == 1 else (2 if xd == 2 else "worker"))
    xdist = xd >= 2
    ci_var = None
    for k, name in enumerate(CI_VARS):
        if ci_idx == k + 1:
            ci_var = name
    answers = [True if a else False for a in answers]
    # xfail: 0/False none, 1/True mark on the function, 2 mark inherited from class/module, 3 xfail(False) (= not xfail)
    xf = 0 if not xfail else (1 if xfail == 1 else (2 if xfail == 2 else 3))
    xmarks = {}
    if xf:
        spec = ("own", ()) if xf == 1 else (("inherited", ()) if xf == 2 else ("own", (False,)))
        xmarks = {"test_a": spec, "test_b": spec}
    xfail = xf in (1, 2)
    r = world.plugin_session({"test_a.py": TEXT, "test_b.py": TEXT_B}, cli=cli, env_flags=env, tty=tty, ci_var=ci_var, pycharm=pycharm, nproc=nproc,
                             answers=answers, xfail=xmarks, pyproject=PYPROJECTS[pyproject],
                             shortcut_args=shortcut, storage_files={U: b"unused"})
    # ---- model
    if shortcut is not None:
        F = {"fix", "trim"} if shortcut == ["--fixit"] else None
        cli_present = True
    elif source == "cli":
        F, cli_present = F_src, True
    elif source == "env":
        F, cli_present = F_src, False
    else:
        cli_present = False
        if pyproject == "default_fix":
            F = {"create", "review"} if tty else {"fix"}
        elif pyproject == "tui_trim":
            F = {"trim", "review"} if tty else {"report"}
        elif pyproject == "shortcut":
            F = {"create", "review"} if tty else {"create"}
        else:
            F = {"create", "review"} if tty else {"report"}
    ci = ci_var is not None and not pycharm
    want = model(F, cli_present=cli_present, xd=xdist, ci=ci, answers=answers, xfail=xfail)
    sig = f"{sorted(F)}|{source}|{tty}|{answers}|{ci_var}|{pycharm}|{xd}|{xfail}|{pyproject}|{want}"
    if source == "env" and not F:
        # INLINE_SNAPSHOT_DEFAULT_FLAGS="" : the documentation is silent (the repo reports the empty name as an unknown
        # flag); either way nothing may be written
        return not r.written and r.storage in ([U], sorted([f"{H}-new.txt", U]))
    if want[0] == "usage":
        PathLog.record(sig, nontrivial=True, sample={"flags": sorted(F), "source": source, "outcome": "usage error"})
        return r.usage_error is not None and not r.written and r.storage == [U]
    if r.usage_error is not None or r.finish_error is not None:
        return False
    _, active, approved = want
    PathLog.record(sig, nontrivial=bool(approved), sample={"flags": sorted(F), "source": source, "tty": bool(tty), "answers": answers, "ci": ci_var, "xdist": nproc,
                                                           "xfail": bool(xfail), "approved_by_model": sorted(approved), "files_written": sorted(r.written)})
    if bool(r.active) != active:
        return False
    if not approved:
        # nothing may be written, nothing persisted or removed
        if r.written or r.write_log:
            return False
        if active and not xfail:
            return r.storage == sorted([f"{H}-new.txt", U])
        if active and xfail and "trim" in F and "short-report" not in F:
            # trim is approved by flag and no participating test file references U: its removal is permitted (C13)
            return r.storage in ([], [U])
        return r.storage == [U]
    got_a = world.snapshot_arg_sources(world.text_after(r, "test_a.py"))
    got_b = world.snapshot_arg_sources(world.text_after(r, "test_b.py"))
    if got_a != expected_args(approved):
        return False
    if got_b != (["7"] if "fix" in approved else OLD_B):
        return False
    # nothing outside the snapshot arguments changes; the only permitted extra edit is the import the new code needs
    with world.NoTracing():
        ta, tb = str(world.text_after(r, "test_a.py")), str(world.text_after(r, "test_b.py"))
        if world.mask_snapshot_args(tb) != world.mask_snapshot_args(TEXT_B):
            return False
        ta_wo = ta.replace("\nfrom inline_snapshot import external\n", "", 1) if "create" in approved else ta
        if world.mask_snapshot_args(ta_wo) != world.mask_snapshot_args(TEXT):
            return False
    if "create" in approved:
        if "from inline_snapshot import external" not in world.text_after(r, "test_a.py"):
            return False
        return r.storage == ([f"{H}.txt"] if "trim" in approved else sorted([f"{H}.txt", U]))
    # the outsourced but unreferenced data stays a -new file; only an approved trim removes unused files
    return r.storage == ([] if "trim" in approved else sorted([f"{H}-new.txt", U]))


GLB = {"gate_case": gate_case, "__name__": "harness.c04"}
BITS = [(f"b{i}", "bool") for i in range(8)]
BITL = "[" + ", ".join(f"b{i}" for i in range(8)) + "]"
ANS = [(f"a{i}", "bool") for i in range(4)]
ANSL = "[a0, a1, a2, a3]"


def conditions(tier):
    q = tier == "quick"
    conds = []
    # Group A: flag resolution and the gate for CLI / env sources; some bits are fixed per condition (parallelism only)
    for source in ("cli", "env"):
        for review in (False, True):
            for short in (False, True):
                for disable in (False, True):
                    splits = [""]
                    if review and not disable:
                        splits = [f"tty == {t} and b4 == {r} and b0 == {c}" for t in (False, True) for r in (False, True) for c in (False, True)]
                    for si, extra in enumerate(splits):
                        pre = [f"b5 == {review} and b6 == {short} and b7 == {disable}"]
                        if extra:
                            pre.append(extra)
                        if not review:
                            pre.append("not (a0 or a1 or a2 or a3)")
                        name = f"gate_{source}_{'review' if review else 'noreview'}_{'short' if short else 'full'}{'_disable' if disable else ''}{'_' + str(si) if extra else ''}"
                        body = f"return gate_case({BITL}, {source!r}, tty, {ANSL})"
                        fn = mkfn(name, BITS + [("tty", "bool")] + ANS, body, GLB, pre=pre)
                        conds.append(Cond(name, fn, timeout=1200, group="gate",
                                          bounds=f"flags from {source}: every subset of the 8 flags with review={review}, short-report={short}, disable={disable}{' and ' + extra if extra else ''}; terminal or not; all 16 review answers"))
    # Group B: deactivation (CI variable, PYCHARM_HOSTED, xdist, xfail) for every category subset given on the CLI / by default
    for source in ("cli", "default"):
        for xdv in (0, 1, 2):
            for xfv in (0, 1, 2, 3):
                pre = ["not b4 and not b5 and not b6 and not b7", f"0 <= ci <= 12 and xd == {xdv} and xf == {xfv}", "ci != 0 or xd == 2 or xf != 0"]
                if source == "default":
                    pre.append("not (b0 or b1 or b2 or b3)")
                name = f"deactivate_{source}_xd{xdv}_{['noxfail', 'xfail', 'xfail_inherited', 'xfail_false'][xfv]}"
                body = f"return gate_case({BITL}, {source!r}, tty, [False, False, False, False], ci, pyc, xd, xf)"
                fn = mkfn(name, BITS + [("tty", "bool"), ("ci", "int"), ("pyc", "bool"), ("xd", "int"), ("xf", "int")], body, GLB, pre=pre)
                conds.append(Cond(name, fn, timeout=1200, group="deactivate",
                                  bounds=f"category subset on the CLI (or defaults) x 12 CI variables x PYCHARM_HOSTED x terminal, numprocesses={[None, 0, 2][xdv]}, xfail mark: {['none', 'on the function', 'inherited from class/module', 'xfail(False)'][xfv]}"))
    for xdv in (0, 1, 2):
        for xfv in (False, True):
            for pycv in (False, True):
                name = f"deactivate_review_xd{xdv}_{'xfail' if xfv else 'noxfail'}_{'pycharm' if pycv else 'nopycharm'}"
                body = "return gate_case([False, False, False, False, False, True, False, False], 'cli', tty, [a0, a1, a2, a3], ci, pyc, xd, xf)"
                fn = mkfn(name, [("tty", "bool"), ("ci", "int"), ("pyc", "bool"), ("xd", "int"), ("xf", "bool")] + ANS, body, GLB,
                          pre=[f"0 <= ci <= 12 and xd == {xdv} and xf == {xfv} and pyc == {pycv}", "ci != 0 or xd == 2 or xf"])
                conds.append(Cond(name, fn, timeout=1200, group="deactivate", bounds=f"--inline-snapshot=review with every CI variable, numprocesses={[None, 0, 2][xdv]}, xfail={xfv}, PYCHARM_HOSTED={pycv} and all answers"))
    for source in ("default", "env"):
        for pp in PYPROJECTS:
            name = f"xdist_worker_{source}_{pp}"
            body = f"return gate_case({BITL}, {source!r}, tty, [False] * 4, 0, False, 3, False, {pp!r})"
            pre = ["not b5 and not b6 and not b7"] + (["not (b0 or b1 or b2 or b3 or b4)"] if source == "default" else [])
            conds.append(Cond(name, mkfn(name, BITS + [("tty", "bool")], body, GLB, pre=pre), timeout=600, group="deactivate",
                              bounds=f"config of an xdist *worker* process (numprocesses None, workerinput set), flags from {source}, pyproject `{pp}`"))
    # Group C: pyproject defaults, shortcut, env overriding defaults but not the CLI
    for pp in PYPROJECTS:
        name = f"defaults_{pp}"
        body = f"return gate_case([False] * 8, 'default', tty, {ANSL}, 0, False, 0, False, {pp!r})"
        conds.append(Cond(name, mkfn(name, [("tty", "bool")] + ANS, body, GLB), timeout=600, group="defaults", bounds=f"no CLI flag, no env var, pyproject `{pp}`, terminal or not, all answers"))
        name = f"envover_{pp}"
        body = f"return gate_case({BITL}, 'env', tty, {ANSL}, 0, False, 0, False, {pp!r})"
        conds.append(Cond(name, mkfn(name, BITS + [("tty", "bool")] + ANS, body, GLB, pre=["not b5 and not b6 and not b7", "not (a0 or a1 or a2 or a3)"]), timeout=600, group="defaults",
                          bounds=f"INLINE_SNAPSHOT_DEFAULT_FLAGS (any category/report subset) overrides pyproject `{pp}`"))
    name = "shortcut_fixit"
    body = "return gate_case([False] * 8, 'default', tty, [False] * 4, 0, False, 0, False, 'shortcut', ['--fixit'])"
    conds.append(Cond(name, mkfn(name, [("tty", "bool")], body, GLB), timeout=300, group="defaults", bounds="--fixit shortcut from pyproject.toml resolved by the real pytest_addoption"))
    tw = mkfn("gate_twin", BITS + [("tty", "bool")], f"return gate_case({BITL}, 'cli', tty, [False] * 4)", GLB, pre=["b0 and b1 and not b5 and not b6 and not b7"], post="not _")
    conds.append(Cond("gate_twin", tw, timeout=60, twin=True))
    return conds


META = {
    "bounds": {"quick": "the whole product of 8 flag bits x source (CLI / env / defaults of 4 pyproject files / shortcut) x terminal x 16 review answers; deactivation: 12 CI variables x PYCHARM_HOSTED x 3 xdist settings (+ the config of an xdist worker) x xfail mark {none, on the function, inherited from class/module, xfail(False)}; fixed two-file program with one pending change per category and one external",
               "thorough": "same (the space is covered completely in both tiers)"},
    "outside": "unknown flag names (only the 8 documented flags are bits), pytest's own option parsing, pypy / non-cpython, the values in the test program (concrete here; C05 quantifies them)",
    "assumptions": ["rich Console / Confirm.ask replaced by scripted stubs; Console.is_terminal is the symbolic `tty`",
                    "open(..., 'bw') of _rewrite_code captured in memory; the storage directory is a real scratch directory reset at session start",
                    "is_pytest_compatible() is True on this interpreter (defaults: report / create,review)"],
}

world.prewarm(
    lambda: gate_case([True, True, False, False, False, False, False, False], "cli", False, [False] * 4),
    lambda: gate_case([False] * 8, "default", True, [True, False, True, False]),
)


def replay(tier, condname, cex):
    """R2 (the harness function concretely) decides; where the scenario has a plain command-line form it is also run in a
    real pytest process (R1: real option parsing, real terminal detection via FORCE_COLOR, real xdist) and the files on disk
    are compared with the model - the outcome is stored with the replay."""
    import inspect

    from vlib.common import generic_replay

    conds = {c.name: c for c in conditions(tier)}
    fn = conds[condname].fn
    out = dict(generic_replay(fn, cex))
    try:
        import re

        src = fn.__verif_src__
        m = re.search(r"gate_case\((.*)\)\s*$", src.strip().splitlines()[-1])
        ba = inspect.signature(fn).bind(*cex.get("args", []), **cex.get("kwargs", {}))
        env_ = dict(ba.arguments)
        captured = {}

        def probe(bits, source, tty, answers, ci_idx=0, pycharm=False, xd=0, xfail=False, pyproject="none", shortcut=None):
            captured.update(dict(bits=list(bits), source=source, tty=tty, answers=list(answers), ci_idx=ci_idx, pycharm=pycharm, xd=xd, xfail=xfail, pyproject=pyproject, shortcut=shortcut))
            return True

        eval("gate_case(" + m.group(1) + ")", {"gate_case": probe}, env_)
        a = captured
        if a["xd"] == 3 or a["xfail"] not in (0, False):
            out["r1"] = "not expressible on the command line (xdist worker config / xfail marks are set by the stub request)"
            return out
        flagstr = ",".join(n for n, b in zip(NAMES, a["bits"]) if b)
        args, env, stdin = [], {}, b""
        if a["shortcut"]:
            args += list(a["shortcut"])
        elif a["source"] == "cli":
            args.append(f"--inline-snapshot={flagstr}")
        elif a["source"] == "env":
            env["INLINE_SNAPSHOT_DEFAULT_FLAGS"] = flagstr
        if a["ci_idx"]:
            env[CI_VARS[a["ci_idx"] - 1]] = "1"
        if a["pycharm"]:
            env["PYCHARM_HOSTED"] = "1"
        if a["xd"] == 2:
            args += ["-n", "2"]
        elif a["xd"] == 1:
            args += ["-n", "0"]
        if a["tty"]:
            env["FORCE_COLOR"] = "true"
        stdin = "".join("y\n" if x else "n\n" for x in a["answers"]).encode() + b"n\nn\nn\nn\n"
        files = {"test_a.py": TEXT, "test_b.py": TEXT_B}
        if PYPROJECTS[a["pyproject"]] is not None:
            files["pyproject.toml"] = PYPROJECTS[a["pyproject"]]
        rc, log, after, storage = world.real_pytest(files, args, env=env, stdin=stdin, storage_files={U: b"unused"})
        out["r1"] = {"args": args, "env": env, "returncode": rc, "test_a_args": world.snapshot_arg_sources(after["test_a.py"]), "test_b_args": world.snapshot_arg_sources(after["test_b.py"]), "storage": [x[:8] + x[64:] for x in storage]}
        out["detail"] = str(out.get("detail")) + " | R1 real pytest: " + repr(out["r1"])[:600]
    except Exception as e:  # R1 is additional evidence only
        out["r1_error"] = repr(e)
    return out
