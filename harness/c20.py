"""C20 - a formatter-clean test file stays formatter-clean.

What the repo contributes is decidable: _rewrite_code.SourceFile.new_code is executed with texts abstracted to symbolic
ids and the formatter replaced by an arbitrary *idempotent* function on a 5-element domain (at most 4 distinct texts occur
in one call, so the domain is complete for this code); file_mode_for_path with a symbolic black configuration.
That black itself is idempotent on the produced text is environment: observed on every explored text of the `clean`
layout template (C03b) and here on a fixed corpus (contract validation).
"""
from __future__ import annotations

import types

import inline_snapshot._config as CFG
import inline_snapshot._format as FM
import inline_snapshot._rewrite_code as RC
from vlib import world
from vlib.common import Cond, PathLog, mkfn
from vlib.world import W

ID = "C20"
N = 5


class Txt:
    """an abstract text: only identity matters"""

    def __init__(self, i):
        self.i = i

    def __eq__(self, o):
        return isinstance(o, Txt) and self.i == o.i

    def __ne__(self, o):
        return not self.__eq__(o)

    def __hash__(self):
        return 0


class Env:
    table = []
    text = None
    replaced = None
    fcalls = 0
    formatted_inputs = []


class FakePath:
    def read_text(self, enc):
        return Env.text


def fake_format(text, filename):
    Env.fcalls += 1
    Env.formatted_inputs.append(text)
    i = text.i
    for k, v in enumerate(Env.table):  # finite table lookup without indexing by a symbolic int
        if i == k:
            return Txt(v)
    raise AssertionError("text outside the domain")


_saved = {}


def _uninstall():
    if _saved:
        RC.format_code = _saved["format_code"]
        RC.LineNumbers = _saved["LineNumbers"]
        RC.asttokens = _saved["asttokens"]
        _saved.clear()


def _install():
    if _saved:
        return
    _saved["format_code"] = RC.format_code
    _saved["LineNumbers"] = RC.LineNumbers
    _saved["asttokens"] = RC.asttokens
    RC.format_code = fake_format
    RC.LineNumbers = lambda code: types.SimpleNamespace(line_to_offset=lambda l, c: 0)
    RC.asttokens = types.SimpleNamespace(util=types.SimpleNamespace(replace=lambda code, reps: Env.replaced, Token=_saved["asttokens"].util.Token))


def F(i):
    for k in range(N):
        if i == k:
            return Env.table[k]


def new_code_case(tab, t, r, cmd):
    _install()
    # only idempotent formatters are in scope
    for k in range(N):
        fk = tab[k]
        ok = False
        for j in range(N):
            if fk == j and tab[j] == j:
                ok = True
        if not ok:
            return True
    Env.table = tab
    Env.text = Txt(t)
    Env.replaced = Txt(r)
    Env.fcalls = 0
    Env.formatted_inputs = []
    old = CFG.config.format_command
    CFG.config.format_command = "fmt {filename}" if cmd else None
    try:
        sf = RC.SourceFile(FakePath())
        out = sf.new_code()
    finally:
        CFG.config.format_command = old
        _uninstall()
    clean = F(t) == t
    PathLog.record(f"{cmd}{bool(clean)}{Env.fcalls}", nontrivial=True, sample={"format_command": bool(cmd), "file_was_clean": bool(clean), "formatter_calls": Env.fcalls})
    if cmd or clean:
        return out.i == F(r) and F(out.i) == out.i  # formatted, hence a fixed point: still clean
    # not clean and no format-command: the raw replacement, the new content is never passed to the formatter
    for x in Env.formatted_inputs:
        if x.i == r and not (r == t):
            return False
    return out.i == r


def _one_rewrite(path, t, r, cmd):
    Env.text = Txt(t)
    Env.replaced = Txt(r)
    Env.fcalls = 0
    Env.formatted_inputs = []
    out = RC.SourceFile(path).new_code()
    clean = F(t) == t
    if cmd or clean:
        return out.i == F(r) and F(out.i) == out.i
    for x in Env.formatted_inputs:
        if x.i == r and not (r == t):
            return False
    return out.i == r


def same_path_twice_case(tab, t1, r1, t2, r2, cmd):
    """the same path is rewritten twice in one interpreter (in-process re-runs: pytest.main called twice, run_inline,
    IDE runners) with different file contents: each rewrite is judged by the content the file has at that time"""
    _install()
    for k in range(N):
        fk = tab[k]
        ok = False
        for j in range(N):
            if fk == j and tab[j] == j:
                ok = True
        if not ok:
            return True
    Env.table = tab
    old = CFG.config.format_command
    CFG.config.format_command = "fmt {filename}" if cmd else None
    path = FakePath()  # one path object for both rewrites (a fresh one per explored path)
    try:
        first = _one_rewrite(path, t1, r1, cmd)
        second = _one_rewrite(path, t2, r2, cmd)
    finally:
        CFG.config.format_command = old
        _uninstall()
    PathLog.record(f"twice{cmd}{bool(F(t1) == t1)}{bool(F(t2) == t2)}", nontrivial=True, sample={"format_command": bool(cmd), "first_file_clean": bool(F(t1) == t1), "second_file_clean": bool(F(t2) == t2)})
    return first and second


def same_path_twice_concrete():
    """contract validation of an engine assumption: CrossHair calls the function behind a functools.lru_cache wrapper
    directly, so state kept in such a cache is invisible to the symbolic conditions above.  The same case is therefore
    also run concretely (no tracing) on every idempotent formatter table of a 3-text domain."""
    import itertools

    global N
    ok = True
    n_saved = N
    N = 3
    try:
        for tab in itertools.product(range(3), repeat=3):
            if any(tab[tab[k]] != tab[k] for k in range(3)):
                continue
            for t1, t2, r2, cmd in itertools.product(range(3), range(3), range(3), (False, True)):
                if not same_path_twice_case(list(tab), t1, 2, t2, r2, cmd):
                    ok = False
                    PathLog.record(f"twiceconcrete{tab}{t1}{t2}{r2}{cmd}", nontrivial=True, sample={"formatter_table": list(tab), "first_content": t1, "second_content": t2, "second_replaced": r2, "format_command": cmd})
    finally:
        N = n_saved
    return ok


def file_mode_case(has_ll, ll, has_mtc, skip_mtc, has_sn, skip_sn, has_pv, pv, has_file):
    import black

    cfg = {}
    if has_ll:
        cfg["line_length"] = ll
    if has_mtc:
        cfg["skip_magic_trailing_comma"] = skip_mtc
    if has_sn:
        cfg["skip_string_normalization"] = skip_sn
    if has_pv:
        cfg["preview"] = pv
    with world.NoTracing():
        d = black.FileMode()
        defaults = dict(line_length=d.line_length, magic_trailing_comma=d.magic_trailing_comma, string_normalization=d.string_normalization, preview=d.preview)

    class ModeStandIn:
        """plain-Python stand-in for black.Mode (a mypyc class that rejects symbolic attribute values)"""

        def __init__(self):
            self.__dict__.update(defaults)

    o1, o2, o3 = black.find_pyproject_toml, black.parse_pyproject_toml, black.FileMode
    black.find_pyproject_toml = lambda srcs, path=None: ("/x/pyproject.toml" if has_file else None)
    black.parse_pyproject_toml = lambda p: dict(cfg)
    black.FileMode = ModeStandIn
    try:
        mode = FM.file_mode_for_path("/x/test_a.py")
    finally:
        black.find_pyproject_toml, black.parse_pyproject_toml, black.FileMode = o1, o2, o3
    PathLog.record(f"{bool(has_file)}{sorted(cfg)}", nontrivial=bool(cfg), sample={"pyproject_found": bool(has_file), "black_keys": sorted(cfg)})
    want_ll = ll if (has_file and has_ll) else d.line_length
    want_mtc = (not skip_mtc) if (has_file and has_mtc) else d.magic_trailing_comma
    want_sn = (not skip_sn) if (has_file and has_sn) else d.string_normalization
    want_pv = pv if (has_file and has_pv) else d.preview
    return mode.line_length == want_ll and bool(mode.magic_trailing_comma) == bool(want_mtc) and bool(mode.string_normalization) == bool(want_sn) and bool(mode.preview) == bool(want_pv)


def black_fixed_point_corpus():
    """contract validation (no solver): real black is idempotent on what the real pipeline produces for a clean file."""
    import inline_snapshot._format as FM2

    world.install_shims()
    ok = True
    T = "from inline_snapshot import snapshot\n\n\ndef test_a():\n    assert obs == snapshot({old})\n"
    cases = [("[1, 2]", list(range(40))), ("{}", {str(i): "x" * 20 for i in range(6)}), ("[1]", [(1,), (1, 2), {"a": [1, 2, 3]}]), ('"a"', "b" * 120), ("(1,)", (1, 2)),
             ("[1, 2, 3]", [1]), ("{1: 2}", {1: [1] * 50}), ("[[1, 2], [3]]", [[1, 2, 3, 4], []])]
    for old, obs in cases:
        world.reset({"obs": obs})
        text = T.format(old=old)
        path = world.materialize(text)
        if FM2.format_code(text, path) != text:
            continue  # not a formatter-clean starting point: not a corpus item
        r = world.core_session(text, {"fix"})
        new = r.text
        again = FM2.format_code(new, path)
        PathLog.record(old + repr(obs), nontrivial=True, sample={"previous": old, "rewritten_file_is_formatter_clean": again == new})
        if again != new:
            ok = False
    return ok


GLB = {"same_path_twice_case": same_path_twice_case, "new_code_case": new_code_case, "file_mode_case": file_mode_case, "__name__": "harness.c20"}


def conditions(tier):
    conds = []
    params = [(f"f{i}", "int") for i in range(N)] + [("t", "int"), ("r", "int"), ("cmd", "bool")]
    rng = " and ".join(f"0 <= f{i} < {N}" for i in range(N)) + f" and 0 <= t < {N} and 0 <= r < {N}"
    for cmd in (False, True):
        for tv in range(N):
            name = f"new_code_{'cmd' if cmd else 'nocmd'}_t{tv}"
            fn = mkfn(name, params, f"return new_code_case([{', '.join(f'f{i}' for i in range(N))}], t, r, cmd)", GLB, pre=[rng, f"cmd == {cmd} and t == {tv}"])
            conds.append(Cond(name, fn, timeout=900, group="new_code",
                              bounds=f"every idempotent formatter on a {N}-text domain, original text #{tv}, every replaced text, format-command {'set' if cmd else 'not set'}"))
    params2 = [(f"f{i}", "int") for i in range(N)] + [("t1", "int"), ("r1", "int"), ("t2", "int"), ("r2", "int"), ("cmd", "bool")]
    rng2 = " and ".join(f"0 <= f{i} < {N}" for i in range(N)) + f" and 0 <= r1 < {N} and 0 <= r2 < {N}"
    for t1v, t2v in ((0, 1), (1, 0), (0, 2), (1, 1)):
        name = f"same_path_twice_t{t1v}{t2v}"
        fn = mkfn(name, params2, f"return same_path_twice_case([{', '.join(f'f{i}' for i in range(N))}], t1, r1, t2, r2, cmd)", GLB, pre=[rng2, f"t1 == {t1v} and t2 == {t2v} and r1 == 3"])
        conds.append(Cond(name, fn, timeout=900, group="new_code",
                          bounds=f"one path rewritten twice in one interpreter: every idempotent formatter on a {N}-text domain, file content #{t1v} then #{t2v}, first replaced text #3, every second replaced text, format-command set or not"))
    tw = mkfn("new_code_twin", params, f"return new_code_case([{', '.join(f'f{i}' for i in range(N))}], t, r, cmd)", GLB, pre=[rng, "f0 == 0 and f1 == 0 and f2 == 2 and f3 == 2 and f4 == 4"], post="not _")
    conds.append(Cond("new_code_twin", tw, timeout=60, twin=True))
    fm = [("has_ll", "bool"), ("ll", "int"), ("has_mtc", "bool"), ("skip_mtc", "bool"), ("has_sn", "bool"), ("skip_sn", "bool"), ("has_pv", "bool"), ("pv", "bool"), ("has_file", "bool")]
    conds.append(Cond("file_mode", mkfn("file_mode", fm, "return file_mode_case(has_ll, ll, has_mtc, skip_mtc, has_sn, skip_sn, has_pv, pv, has_file)", GLB, pre=["1 <= ll <= 500"]), timeout=600, group="file_mode",
                      bounds="every presence pattern of line_length / skip_magic_trailing_comma / skip_string_normalization / preview in [tool.black], every value, pyproject found or not"))
    conds.append(Cond("same_path_twice_concrete", same_path_twice_concrete, concrete=True, group="contract-validation",
                      bounds="engine assumption check (functools caches are bypassed by the engine): one path rewritten twice, all 10 idempotent formatters on a 3-text domain x contents x replaced text x format-command, run concretely"))
    conds.append(Cond("black_fixed_point_corpus", black_fixed_point_corpus, concrete=True, group="contract-validation", bounds="8 formatter-clean files with values that wrap / explode; real black, real pipeline"))
    return conds


META = {
    "bounds": {"quick": "formatter = arbitrary idempotent function on a 5-element text domain (complete: <= 4 distinct texts occur in new_code); all combinations of original/replaced text and format-command; all black option patterns",
               "thorough": "same (complete)"},
    "outside": "that black really is idempotent on the produced text (long values re-wrapping, magic trailing commas): not encodable (mypyc) - observed on every explored text of the clean layout template of C03 and on a fixed corpus here",
    "assumptions": ["CrossHair calls the function behind a functools.lru_cache wrapper directly; state in such caches is covered only by the concrete item same_path_twice_concrete",
                    "texts are abstract ids; the replacement step (asttokens.util.replace, LineNumbers) is replaced by 'yields text r'",
                    "black.find_pyproject_toml / parse_pyproject_toml replaced by a symbolic configuration for file_mode_for_path; black.FileMode replaced by a plain-Python stand-in with black's defaults (the mypyc class rejects symbolic attribute values)"],
}

world.prewarm(lambda: new_code_case([0, 0, 2, 2, 4], 0, 3, False), lambda: file_mode_case(True, 100, True, True, False, False, True, True, True))
