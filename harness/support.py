"""Classes used by the templates (dataclass with default / default_factory, attrs, namedtuple, enum ...)."""
from __future__ import annotations

import enum
from collections import namedtuple
from dataclasses import dataclass, field

import attrs


@dataclass
class P:
    a: int
    b: int = 5
    c: list = field(default_factory=list)


@dataclass
class Q:
    p: P
    n: int = 0


@attrs.define
class A:
    a: int
    b: int = 7


@dataclass
class R:
    a: int
    b: int = 0
    c: int = 0
    d: int = 0


@dataclass
class P2:
    """a sibling class of P with the same fields"""

    a: int
    b: int = 5
    c: list = field(default_factory=list)


@dataclass
class PSub(P):
    pass


@attrs.define
class A2:
    a: int
    b: int = 7


NT = namedtuple("NT", "a,b", defaults=[3])
NT2 = namedtuple("NT2", "a,b", defaults=[3])

try:
    from typing import Any as _Any

    import pydantic as _pydantic

    class Basket(_pydantic.BaseModel):
        owner: _Any
        n: _Any = 5
        items: list = _pydantic.Field(default_factory=list)
        inner: _Any = None

    def basket_mut(owner, item):
        """a model whose fields are filled in place after construction"""
        b = Basket(owner=owner)
        b.items.append(item)
        b.n = item
        return b

except Exception:  # pragma: no cover
    Basket = None
    basket_mut = None


class Color(enum.Enum):
    red = 1
    green = 2


class Perm(enum.Flag):
    r = 1
    w = 2
    x = 4


class Weird:
    """repr is not Python code -> HasRepr"""

    def __init__(self, v):
        self.v = v

    def __repr__(self):
        return f"<Weird {self.v}>"

    def __eq__(self, other):
        if not isinstance(other, Weird):
            return NotImplemented
        return self.v == other.v


class Maybe:
    """repr is Python code for some values of the type only (like deque([1]) / deque([<Color.red: 1>]))"""

    def __init__(self, code, v):
        self.code = code
        self.v = v

    def __repr__(self):
        return f"Maybe(True, {self.v!r})" if self.code else f"<Maybe {self.v!r}>"

    def __eq__(self, other):
        if not isinstance(other, Maybe):
            return NotImplemented
        return self.code == other.code and self.v == other.v


@dataclass
class PI:
    """a field that is not an argument of the constructor"""

    a: int
    b: int = field(init=False, default=0)

    def __post_init__(self):
        self.b = self.a + 1


class Strict:
    """repr is not Python code (-> HasRepr) and __eq__ answers False (not NotImplemented) for other types"""

    def __init__(self, v):
        self.v = v

    def __repr__(self):
        return f"<Strict {self.v}>"

    def __eq__(self, other):
        return isinstance(other, Strict) and other.v == self.v


SUPPORT_NS = {"PI": PI, "Strict": Strict, "Maybe": Maybe, "R": R, "P": P, "P2": P2, "PSub": PSub, "Q": Q, "A": A, "A2": A2, "NT": NT, "NT2": NT2, "Color": Color, "Perm": Perm, "Weird": Weird}
if Basket is not None:
    SUPPORT_NS.update({"Basket": Basket, "basket_mut": basket_mut})
