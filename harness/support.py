"""Classes used by the templates (dataclass with default / default_factory, attrs, namedtuple, enum ...)."""
from __future__ import annotations

import enum
from collections import namedtuple
from dataclasses import dataclass, field

import attrs


@dataclass
class P:
    a: int
    b: int = 5
    c: list = field(default_factory=list)


@dataclass
class Q:
    p: P
    n: int = 0


@attrs.define
class A:
    a: int
    b: int = 7


NT = namedtuple("NT", "a,b", defaults=[3])


class Color(enum.Enum):
    red = 1
    green = 2


class Perm(enum.Flag):
    r = 1
    w = 2
    x = 4


class Weird:
    """repr is not Python code -> HasRepr"""

    def __init__(self, v):
        self.v = v

    def __repr__(self):
        return f"<Weird {self.v}>"

    def __eq__(self, other):
        if not isinstance(other, Weird):
            return NotImplemented
        return self.v == other.v


SUPPORT_NS = {"P": P, "Q": Q, "A": A, "NT": NT, "Color": Color, "Perm": Perm, "Weird": Weird}
