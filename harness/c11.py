"""C11 - fixing a container keeps what did not change.

(a) alignment kernel: the repo's align / nw_align / add_x on two lists of symbolic ints.
(b) verbatim survival through the real fix pipeline: see harness.c11b (shares the D-core driver).
"""
from __future__ import annotations

from inline_snapshot._align import add_x, align

from inline_snapshot._is import Is
from inline_snapshot._unmanaged import Unmanaged
from vlib.common import Cond, PathLog, mkfn

ID = "C11"


def lcs_len(a, b):
    n, m = len(a), len(b)
    t = [[0] * (m + 1) for _ in range(n + 1)]
    for i in range(n):
        for j in range(m):
            if a[i] == b[j]:
                t[i + 1][j + 1] = t[i][j] + 1
            else:
                t[i + 1][j + 1] = max(t[i][j + 1], t[i + 1][j])
    return t[n][m]


def align_oracle(a, b):
    """True iff add_x(align(a, b)) is a valid, LCS-optimal edit script that keeps common prefix and suffix."""
    raw = align(a, b)
    d = add_x(raw)
    # raw script
    ai = bi = 0
    raw_pairs = []
    for c in raw:
        if c == "m":
            if not (ai < len(a) and bi < len(b)):
                return False
            if not a[ai] == b[bi]:
                return False
            raw_pairs.append((ai, bi))
            ai += 1
            bi += 1
        elif c == "d":
            ai += 1
        elif c == "i":
            bi += 1
        else:
            return False
    if ai != len(a) or bi != len(b):
        return False
    if len(raw_pairs) != lcs_len(a, b):
        return False
    # script after add_x: x consumes one old and one new element, matches unchanged
    ai = bi = 0
    pairs = []
    for c in d:
        if c == "m":
            pairs.append((ai, bi))
            ai += 1
            bi += 1
        elif c == "x":
            if not (ai < len(a) and bi < len(b)):
                return False
            ai += 1
            bi += 1
        elif c == "d":
            ai += 1
        elif c == "i":
            bi += 1
        else:
            return False
    if ai != len(a) or bi != len(b) or pairs != raw_pairs:
        return False
    # lemma used by C03(a): the aligner never emits an insertion immediately before a deletion
    # (unmatched runs come out as d...d i...i), so an insert position never coincides with a deleted element
    if "id" in raw or "id" in d:
        return False
    # common prefix / suffix survive as matches
    p = 0
    while p < len(a) and p < len(b) and a[p] == b[p]:
        p += 1
    for k in range(p):
        if (k, k) not in pairs:
            return False
    s = 0
    while s < len(a) - p and s < len(b) - p and a[len(a) - 1 - s] == b[len(b) - 1 - s]:
        s += 1
    for k in range(s):
        if (len(a) - 1 - k, len(b) - 1 - k) not in pairs:
            return False
    PathLog.record(f"{len(a)}/{len(b)}:{raw}->{d}", nontrivial=("m" in raw and len(raw) > raw.count("m")),
                   sample={"old_len": len(a), "new_len": len(b), "script": raw, "after_add_x": d})
    return True


def addx_oracle(track):
    """add_x on an arbitrary d/i/m script: only balanced d^k i^k runs become x^k, everything else is kept."""
    out = add_x(track)
    # expand and compare consumption
    def consume(s):
        o = n = 0
        ms = []
        for c in s:
            if c == "m":
                ms.append((o, n)); o += 1; n += 1
            elif c == "x":
                o += 1; n += 1
            elif c == "d":
                o += 1
            elif c == "i":
                n += 1
            else:
                return None
        return o, n, ms
    r1 = consume(track)
    r2 = consume(out)
    PathLog.record(f"{track}->{out}", nontrivial="x" in out, sample={"track": track, "add_x": out})
    return r1 == r2


def wrap(v):
    """what the real pipeline aligns for an Is(...) element of the previous value"""
    return Unmanaged(Is(v))


GLB = {"align_oracle": align_oracle, "addx_oracle": addx_oracle, "wrap": wrap, "__name__": "harness.c11"}


def _align_cond(na, nb, twin=False, wrapped=()):
    params = [(f"a{i}", "int") for i in range(na)] + [(f"b{i}", "int") for i in range(nb)]
    if not params:
        params = [("dummy", "int")]
    body = f"""
    a = [{', '.join((f'wrap(a{i})' if i in wrapped else f'a{i}') for i in range(na))}]
    b = [{', '.join(f'b{i}' for i in range(nb))}]
    return align_oracle(a, b)
    """
    name = f"align_{na}_{nb}" + ("_w" + "".join(map(str, wrapped)) if wrapped else "") + ("_twin" if twin else "")
    fn = mkfn(name, params, body, GLB, post="not _" if twin else "_")
    return Cond(name, fn, timeout=60 if twin else 900, twin=twin, group="align",
                bounds=f"old list of {na} ints{' (elements ' + str(list(wrapped)) + ' wrapped as Unmanaged(Is(..)), i.e. equal across types)' if wrapped else ''}, new list of {nb} ints (values unbounded)")


def _addx_cond(n):
    # a script of length n over {d,i,m} given by n symbolic ints in 0..2
    params = [(f"t{i}", "int") for i in range(n)]
    body = f"""
    track = ''.join('dim'[t] for t in [{', '.join(f't{i}' for i in range(n))}])
    return addx_oracle(track)
    """
    pre = [" and ".join(f"0 <= t{i} <= 2" for i in range(n))]
    name = f"addx_{n}"
    fn = mkfn(name, params, body, GLB, pre=pre)
    return Cond(name, fn, timeout=600, bounds=f"every d/i/m script of length {n}", group="add_x")


def conditions(tier):
    N = 3 if tier == "quick" else 4
    conds = []
    for na in range(N + 1):
        for nb in range(N + 1):
            if na + nb == 0:
                continue
            conds.append(_align_cond(na, nb))
    conds.append(_align_cond(2, 2, twin=True))
    # old elements that are equal to new ones across types (the wrapper objects of user-controlled parts)
    for na, nb, w in [(2, 2, (0,)), (2, 1, (0,)), (3, 2, (0,)), (3, 2, (1,)), (2, 3, (1,)), (3, 3, (0, 2))] + ([] if tier == "quick" else [(4, 3, (0, 3)), (3, 4, (1,)), (4, 4, (0, 2))]):
        conds.append(_align_cond(na, nb, wrapped=w))
    for n in ([4, 6] if tier == "quick" else [4, 6, 8]):
        conds.append(_addx_cond(n))
    from harness import c10

    conds += c10.conditions_c11b(tier)  # (b) verbatim survival through the real fix pipeline
    return conds


META = {
    "bounds": {"quick": "align/nw_align/add_x on lists of <= 3 / <= 3 symbolic ints; add_x on all scripts of length 4 and 6",
               "thorough": "lists of <= 4 / <= 4 symbolic ints; add_x on all scripts of length 4, 6, 8"},
    "outside": "longer lists; element types other than int (the aligner only uses ==)",
    "assumptions": ["elements compare with a total, deterministic == (symbolic ints)"],
}
