"""C14 - each snapshot() call site has its own state; repeated evaluation aggregates.

D-core on templates with several call sites (two on one line, inside a nested function, inside a comprehension, passed
through a helper, module-level shared by two tests) evaluated in an interleaving given by a symbolic schedule; values
symbolic.  Oracle: every site's result equals the documented model run on that site's own observation subsequence
(non-interference + aggregation).  Re-evaluation with a changed hand-written argument raises UsageError, with Is() not.
"""
from __future__ import annotations

from harness.c05 import model_in, model_minmax, same_members
from inline_snapshot import Is
from inline_snapshot._exceptions import UsageError
from vlib import world
from vlib.common import Cond, PathLog, mkfn
from vlib.world import MISSING, W

ID = "C14"
world.install_shims()
HEAD = "from inline_snapshot import snapshot, Is\n\n"

# three sites: 0 upper bound, 1 lower bound, 2 membership.  Layout variants (where the call sites live):
LAYOUTS = {
    "one_line": "def sites(k, x):\n    return (x <= snapshot({a0})) if k == 0 else ((x >= snapshot({a1})) if k == 1 else (x in snapshot({a2})))\n",
    "helpers": "def cmp_le(x, s):\n    return x <= s\n\ndef sites(k, x):\n    if k == 0:\n        return cmp_le(x, snapshot({a0}))\n    if k == 1:\n        return x >= snapshot({a1})\n    return x in snapshot({a2})\n",
    "nested_and_comprehension": "def sites(k, x):\n    def inner():\n        return x <= snapshot({a0})\n    if k == 0:\n        return inner()\n    if k == 1:\n        return [y >= snapshot({a1}) for y in [x]][0]\n    return (lambda: x in snapshot({a2}))()\n",
    "module_level": "s0 = snapshot({a0})\ns1 = snapshot({a1})\ns2 = snapshot({a2})\n\ndef sites(k, x):\n    return (x <= s0) if k == 0 else ((x >= s1) if k == 1 else (x in s2))\n",
}
DRIVER = "\ndef test_a():\n    for k, x in zip(sched[:half], xs[:half]):\n        res.append(sites(k, x))\n\ndef test_b():\n    for k, x in zip(sched[half:], xs[half:]):\n        res.append(sites(k, x))\n"


def sites_case(layout, has_old, sched, xs, olds, approved):
    m = len(xs)
    sched = [0 if k == 0 else (1 if k == 1 else 2) for k in sched]  # fork: the schedule is concrete on a path
    ns = {"sched": sched, "xs": list(xs), "res": [], "half": m // 2}
    if has_old:
        ns.update({"c0": olds[0], "c1": olds[1], "c2": olds[2], "c3": olds[3]})
    world.reset(ns)
    args = {"a0": "c0", "a1": "c1", "a2": "[c2, c3]"} if has_old else {"a0": "", "a1": "", "a2": ""}
    t = HEAD + LAYOUTS[layout].format(**args) + DRIVER
    r = world.core_session(t, approved)
    vals = world.snapshot_values(r.text)
    if len(vals) != 3:
        return False
    obs = [[x for k, x in zip(sched, xs) if k == i] for i in range(3)]
    PathLog.record(f"{layout}{has_old}{sched}{sorted(approved)}{r.text}", nontrivial=r.changed,
                   sample={"layout": layout, "schedule": sched, "approved": sorted(approved), "rewritten": world.snapshot_arg_sources(r.text)})
    for i in range(3):
        old = MISSING
        if has_old:
            old = olds[0] if i == 0 else (olds[1] if i == 1 else [olds[2], olds[3]])
        if not obs[i]:
            want = old  # never evaluated: untouched
        elif i == 0:
            want = model_minmax("<=", old, obs[i], approved)[1]
        elif i == 1:
            want = model_minmax(">=", old, obs[i], approved)[1]
        else:
            want = model_in(old, obs[i], approved)[1]
        got = vals[i]
        if want is MISSING:
            if got is not MISSING:
                return False
        elif got is MISSING:
            return False
        elif i == 2:
            if not same_members(got, want):
                return False
        elif not (got == want):
            return False
    return True


def reeval_case(form, a1, a2, x, fix=False, update=False):
    """the hand-written argument evaluates to a1 on the first and a2 on the second evaluation"""
    world.reset({"a_vals": [a1, a2], "x": x, "out": [], "Is": Is})
    arg = {"plain": "a", "list": "[a, 1]", "dict": "{1: a}", "is": "Is(a)", "is_list": "[Is(a), 1]", "is_dict_item": "{1: Is(a)}"}[form]
    if form == "is_dict_item":
        body = f"    for a in a_vals:\n        out.append(snapshot({arg})[1] == a)\n"
    elif form in ("plain", "is"):
        body = f"    for a in a_vals:\n        out.append(a == snapshot({arg}))\n"
    elif form in ("list", "is_list"):
        body = f"    for a in a_vals:\n        out.append([a, 1] == snapshot({arg}))\n"
    else:
        body = f"    for a in a_vals:\n        out.append({{1: a}} == snapshot({arg}))\n"
    approved = set()
    if fix:
        approved.add("fix")
    if update:
        approved.add("update")
    r = world.core_session(HEAD + "def test_a():\n" + body, approved, collect=False)
    out = r.outcomes.get("test_a")
    PathLog.record(f"reeval{form}{sorted(approved)}{type(out).__name__}", nontrivial=True, sample={"argument": arg, "outcome": "passed" if out == "passed" else type(out).__name__})
    if form.startswith("is"):
        # user-controlled dynamic part: never an error, and the comparison uses the current value
        return out == "passed" and [bool(b) for b in r.ns["out"]] == [True, True]
    if a1 == a2:
        return out == "passed"
    return isinstance(out, UsageError)


TWIN_FILE = "from inline_snapshot import snapshot\n\n\ndef test_x():\n    res.append(v == snapshot())\n    for y in ys:\n        res.append(y <= snapshot())\n    res.append(v in snapshot({old}))\n"


def two_files_case(has_old, a_vals, b_vals, c0):
    """two test files with *identical* text (copied from one template) and different observed values: the call sites
    of one file must not share state with the equal-looking call sites of the other (real plugin hooks)"""
    world.install_plugin_shims()
    world.reset({"c0": c0})
    text = TWIN_FILE.format(old="[c0]" if has_old else "")
    ga = {"v": a_vals[0], "ys": [a_vals[1], a_vals[2]], "res": []}
    gb = {"v": b_vals[0], "ys": [b_vals[1], b_vals[2]], "res": []}
    r = world.plugin_session({"test_a.py": text, "test_b.py": text}, cli="create,fix", per_file_globals={"test_a.py": ga, "test_b.py": gb})
    if r.finish_error is not None or r.usage_error is not None:
        return False
    ok = True
    for name, g in (("test_a.py", ga), ("test_b.py", gb)):
        vals = world.snapshot_values(world.text_after(r, name))
        hi = g["ys"][0] if g["ys"][0] >= g["ys"][1] else g["ys"][1]
        if len(vals) != 3 or vals[0] is MISSING or vals[1] is MISSING or vals[2] is MISSING:
            return False
        if not (vals[0] == g["v"] and vals[1] == hi and g["v"] in vals[2]):
            ok = False
        if not has_old and not (vals[2] == [g["v"]]):
            ok = False
    PathLog.record("twofiles" + str(has_old) + str(sorted(r.written)), nontrivial=True, sample={"files": "two files with identical text", "rewritten_a": world.snapshot_arg_sources(world.text_after(r, "test_a.py")), "rewritten_b": world.snapshot_arg_sources(world.text_after(r, "test_b.py"))})
    return ok


def growing_member_case(has_old, other_site, n0, n1, n2, c0):
    """a mutable object is recorded at an `in` site several times while it grows (and is also compared at another site):
    every recorded member keeps the value it had when it was compared"""
    world.reset({"new": [n0, n1, n2], "c0": c0, "res": []})
    old = "[[c0]]" if has_old else ""
    t = (HEAD + "def helper(v):\n    res.append(v == snapshot())\n\n\ndef test_a():\n    buf = []\n    for x in new:\n        buf.append(x)\n"
         f"        res.append(buf in snapshot({old}))\n" + ("        helper(list(buf))\n" if other_site else "") + "    buf.append(99)\n")
    r = world.core_session(t, {"create", "fix"})
    vals = world.snapshot_values(r.text)
    got = vals[1] if other_site is False else vals[1]
    # snapshot calls in file order: helper's == site first, then the in site
    site_in = vals[-1]
    PathLog.record(f"grow{has_old}{other_site}" + str(world.snapshot_arg_sources(r.text)), nontrivial=True, sample={"in_site_had_value": bool(has_old), "other_site": bool(other_site), "written": world.snapshot_arg_sources(r.text)})
    if site_in is world.MISSING:
        return False
    want = [[n0], [n0, n1], [n0, n1, n2]]
    for w in want:
        found = False
        for g in site_in:
            if g == w:
                found = True
        if not found:
            return False
    for g in site_in:
        if len(g) > 3:
            return False
    return True


GLB = {"growing_member_case": growing_member_case, "two_files_case": two_files_case, "sites_case": sites_case, "reeval_case": reeval_case, "__name__": "harness.c14"}


def conditions(tier):
    q = tier == "quick"
    conds = []
    M = 3 if q else 4
    for layout in LAYOUTS:
        for has_old, approved_sets in ((False, [{"create"}]), (True, [{"fix", "trim"}] if q else [{"fix"}, {"trim"}, {"fix", "trim"}, set()])):
            for approved in approved_sets:
                for m in (2, M):
                    if q and m == M and (has_old or layout not in ("one_line", "module_level")):
                        continue
                    if not q and m == M and has_old:
                        m = 3  # pre-filled snapshots: 4 evaluations do not close within the budget (measured: > 20 min per cell)
                    if q and has_old and layout in ("helpers",):
                        continue
                    params = [(f"k{i}", "int") for i in range(m)] + [(f"x{i}", "int") for i in range(m)] + ([(f"c{i}", "int") for i in range(4)] if has_old else [])
                    body = f"return sites_case({layout!r}, {has_old}, [{', '.join(f'k{i}' for i in range(m))}], [{', '.join(f'x{i}' for i in range(m))}], [{'c0, c1, c2, c3' if has_old else ''}], {approved!r})"
                    for first in ((0, 1, 2) if has_old else (None,)):  # split by the first scheduled site (parallelism only)
                        pre = [" and ".join(f"0 <= k{i} <= 2" for i in range(m))] + ([f"k0 == {first}"] if first is not None else [])
                        name = f"sites_{layout}_{'old' if has_old else 'new'}_{''.join(sorted(c[0] for c in approved)) or 'none'}_m{m}" + (f"_k{first}" if first is not None else "")
                        conds.append(Cond(name, mkfn(name, params, body, GLB, pre=pre), timeout=1200 if q else 2700, group="sites-" + layout,
                                          bounds=f"layout `{layout}`: 3 call sites (<=, >=, in), {m} evaluations in every interleaving (symbolic schedule{', first site %d' % first if first is not None else ''}) split over two tests, values symbolic, {'previous values c0, c1, [c2, c3]' if has_old else 'empty snapshots'}, approved {sorted(approved)}"))
    for form in ("plain", "list", "dict", "is", "is_list", "is_dict_item"):
        name = f"reeval_{form}"
        conds.append(Cond(name, mkfn(name, [("a1", "int"), ("a2", "int"), ("x", "int"), ("fix", "bool"), ("update", "bool")], f"return reeval_case({form!r}, a1, a2, x, fix, update)", GLB), timeout=600, group="reeval",
                          bounds=f"snapshot argument form `{form}` re-evaluated with a possibly different value (symbolic), fix / update approved or not"))
    for has_old in (False, True):
        name = f"two_identical_files_{'old' if has_old else 'new'}"
        params = [(n, "int") for n in ["a0", "a1", "a2", "b0", "b1", "b2", "c0"]]
        conds.append(Cond(name, mkfn(name, params, f"return two_files_case({has_old}, [a0, a1, a2], [b0, b1, b2], c0)", GLB), timeout=900, group="two-files",
                          bounds="two test files with byte-identical text (equal code objects) and different symbolic observations, real plugin hooks, create+fix"))
    for has_old in (False, True):
        for other in (False, True):
            name = f"growing_member_{'old' if has_old else 'new'}{'_other_site' if other else ''}"
            fn = mkfn(name, [("n0", "int"), ("n1", "int"), ("n2", "int"), ("c0", "int")], f"return growing_member_case({has_old}, {other}, n0, n1, n2, c0)", GLB)
            conds.append(Cond(name, fn, timeout=600, group="growing-member",
                              bounds=f"one list that grows by a symbolic int per loop pass is tested with `in` at one call site three times ({'pre-filled' if has_old else 'empty'} snapshot){', a copy also compared at an == site in a helper' if other else ''}, mutated again afterwards; create+fix"))
    tw = mkfn("sites_twin", [("k0", "int"), ("k1", "int"), ("x0", "int"), ("x1", "int")], "return sites_case('one_line', False, [k0, k1], [x0, x1], [], {'create'})", GLB, pre=["0 <= k0 <= 2 and 0 <= k1 <= 2"], post="not _")
    conds.append(Cond("sites_twin", tw, timeout=60, twin=True))
    return conds


META = {
    "bounds": {"quick": "3 call sites in 4 layouts, <=3 evaluations in every interleaving split over two tests; empty and pre-filled snapshots; 6 argument forms for re-evaluation with fix/update approved or not; two byte-identical test files with different observations",
               "thorough": "<=4 evaluations for empty snapshots, <=3 for pre-filled ones (4 did not close within 20 min per cell), 4 approval subsets"},
    "outside": "more call sites / evaluations; executing's node lookup is run for real (key (id(code), f_lasti) is concrete)",
    "assumptions": ["stub: repr of a symbolic int leaf is a name token", "per-site expectation = the documented model of C05 (model_minmax / model_in) applied to the site's own observations"],
}

world.prewarm(lambda: sites_case("one_line", True, [0, 2, 1], [1, 2, 3], [5, 0, 1, 2], {"fix", "trim"}), lambda: reeval_case("list", 1, 2, 1))
