"""C16 - generated code is deterministic and independent of the formatter's presence.

(a) sort_set_values / set and frozenset reprs on the same distinct symbolic elements in two iteration orders related by a
    symbolic permutation (models every hash seed as an arbitrary iteration order): identical output;
(b) the create/fix pipeline on the same symbolic data under three formatter configurations (real black, black missing,
    identity format-command): identical syntax tree of the rewritten argument and equal value;
(c) contract validation: real interpreter processes with different PYTHONHASHSEED write byte-identical files.
"""
from __future__ import annotations

import ast
import itertools
import sys
import types
from unittest import mock

import inline_snapshot._code_repr as CR
import inline_snapshot._config as CFG
import inline_snapshot._format as FM
from harness.support import SUPPORT_NS
from vlib import world
from vlib.common import Cond, PathLog, mkfn
from vlib.world import W

ID = "C16"
world.install_shims()
HEAD = "from inline_snapshot import snapshot\n\n"


def set_order_case(n, elems, perm_index, kind, with_str):
    """elems pairwise distinct ints; second iteration order = perm_index-th permutation of the first."""
    ns = {f"c{i}": e for i, e in enumerate(elems)}
    world.reset(ns)
    perms = list(itertools.permutations(range(n)))
    order = None
    for k, p in enumerate(perms):
        if perm_index == k:
            order = p
    first = list(elems) + (["s", "t"] if with_str else [])
    second = [elems[i] for i in order] + (["t", "s"] if with_str else [])
    with mock.patch("builtins.repr", CR.mocked_code_repr):
        out1 = CR.sort_set_values(first)
        out2 = CR.sort_set_values(list(reversed(second)) if with_str else second)
    PathLog.record(f"{kind}{n}{order}{out1}", nontrivial=order != tuple(range(n)), sample={"elements": n, "second_order": list(order), "mixed_with_str": with_str, "output": out1})
    if out1 != out2:
        return False
    if not with_str:
        # and it is the ascending order of the values
        vals = [ns[name] for name in out1]
        for a, b in zip(vals, vals[1:]):
            if not (a < b):
                return False
    return True


class _Partial:
    """element type whose `<` is a partial order (as for sets): the product order of two ints"""

    def __init__(self, a, b, tag):
        self.a, self.b, self.tag = a, b, tag

    def __lt__(self, other):
        return self.a < other.a and self.b < other.b

    def __repr__(self):
        return f"P{self.tag}"


def partial_order_case(n, coords, perm_index):
    """n elements with a partial `<` (sorted() does not raise): the generated order must not depend on the iteration order"""
    world.reset({})
    elems = [_Partial(coords[2 * i], coords[2 * i + 1], i) for i in range(n)]
    order = None
    for k, p in enumerate(itertools.permutations(range(n))):
        if perm_index == k:
            order = p
    with mock.patch("builtins.repr", CR.mocked_code_repr):
        out1 = CR.sort_set_values(list(elems))
        out2 = CR.sort_set_values([elems[i] for i in order])
    PathLog.record(f"partial{n}{order}{out1}", nontrivial=order != tuple(range(n)), sample={"elements": n, "second_order": list(order), "partial_order": "product order of two symbolic ints", "output": out1})
    return out1 == out2


class _Run:
    def __init__(self, returncode, stdout):
        self.returncode = returncode
        self.stdout = stdout
        self.stderr = b""


def formatter_case(old_src, new_src, leafvals, approved):
    """the same data under three formatter configurations"""
    results = []
    for cfg in ("black", "no-black", "format-command"):
        ns = dict(SUPPORT_NS)
        ns.update(leafvals)
        ns["QUOTES"] = "'\""          # both quote kinds, ends with a quote
        ns["BOTH"] = "it's 'x' \"y\""
        ns["BYTES"] = b"\x00\"q'"
        world.reset(ns)
        new = eval(new_src, dict(W.ns))
        W.ns["new"] = new
        t = HEAD + f"def test_a():\n    assert new == snapshot({old_src})\n"
        old_cmd = CFG.config.format_command
        old_sp = FM.sp
        saved_black = sys.modules.get("black")
        try:
            if cfg == "no-black":
                sys.modules["black"] = None  # `from black import format_str` raises ImportError
            elif cfg == "format-command":
                CFG.config.format_command = "identity {filename}"
                FM.sp = types.SimpleNamespace(run=lambda cmd, shell, input, capture_output: _Run(0, input))
            r = world.core_session(t, approved)
        finally:
            CFG.config.format_command = old_cmd
            FM.sp = old_sp
            if saved_black is not None:
                sys.modules["black"] = saved_black
            with world.NoTracing():
                import inline_snapshot._problems as PR

                PR.all_problems.clear()
        src = world.snapshot_arg_sources(r.text)[0]
        with world.NoTracing():
            dump = ast.dump(ast.parse(src, mode="eval")) if src is not None else None
        val = world.snapshot_values(r.text)[0]
        results.append((dump, val, src))
    PathLog.record(old_src + str([x[2] for x in results]), nontrivial=True, sample={"previous": old_src, "observed": new_src, "rewritten_under": {c: x[2] for c, x in zip(("black", "no-black", "format-command"), results)}})
    d0, v0, _ = results[0]
    for d, v, _ in results[1:]:
        if d != d0:
            return False
        if (v is world.MISSING) != (v0 is world.MISSING):
            return False
        if v is not world.MISSING and not (v == v0):
            return False
    return True


def _typed_equal(a, b):
    """equal and of the same types all the way down (True is not 1, a tuple is not a list)"""
    if type(a) is not type(b):
        return False
    if isinstance(a, (tuple, list)):
        if len(a) != len(b):
            return False
        for x, y in zip(a, b):
            if not _typed_equal(x, y):
                return False
        return True
    if isinstance(a, dict):
        if len(a) != len(b):
            return False
        for (k1, v1), (k2, v2) in zip(a.items(), b.items()):
            if not _typed_equal(k1, k2) or not _typed_equal(v1, v2):
                return False
        return True
    return a == b


HISTORY = {
    "tuple_int_then_bool": ("(x0, 'k')", "(B0, 'k')"),
    "tuple_bool_then_int": ("(B0, 'k')", "(x0, 'k')"),
    "nested_then_flat": ("[(x0, x1)]", "[(B0, B1)]"),
    "leaf_int_then_bool": ("x0", "B0"),
    "key_tuples": ("{(1, 'k'): x0}", "{(True, 'k'): B0}"),
    "same_twice": ("(x0, 'k')", "(x1, 'k')"),
}


def history_case(hname, x0, x1, b0, b1, first_runs):
    """the text written for a value does not depend on what was generated earlier in the session: a second snapshot in
    the same file gets an argument that evaluates to its own value with its own types, whether or not the first
    snapshot was generated before it"""
    ea, eb = HISTORY[hname]
    ns = {"x0": x0, "x1": x1, "B0": True if b0 else False, "B1": True if b1 else False, "first_runs": True if first_runs else False}
    world.reset(ns)
    t = HEAD + f"def test_a():\n    if first_runs:\n        assert {ea} == snapshot()\n\n\ndef test_b():\n    assert {eb} == snapshot()\n"
    r = world.core_session(t, {"create"})
    srcs = world.snapshot_arg_sources(r.text)
    vals = world.snapshot_values(r.text)
    PathLog.record(f"{hname}{first_runs}{srcs}", nontrivial=bool(first_runs), sample={"first_value": ea, "second_value": eb, "first_generated_before": bool(first_runs), "written": srcs})
    want_a = eval(ea, dict(W.ns))
    want_b = eval(eb, dict(W.ns))
    if first_runs:
        if vals[0] is world.MISSING or not _typed_equal(vals[0], want_a):
            return False
    elif vals[0] is not world.MISSING:
        return False
    if vals[1] is world.MISSING or not _typed_equal(vals[1], want_b):
        return False
    return True


def hash_seed_processes():
    """contract validation: two real pytest processes with different PYTHONHASHSEED create identical files"""
    text = ("from inline_snapshot import snapshot\n\n\ndef test_a():\n    assert {'b', 'a', 'c', 'zz', 'q'} == snapshot()\n    assert frozenset({3, 1, 2}) == snapshot()\n"
            "    assert {('x', 1), ('a', 2)} == snapshot()\n    assert {'k2': 1, 'k1': {1.5, 'm', None}} == snapshot()\n    assert [set(), {b'b', 'a', 1}] == snapshot()\n"
            "    assert {frozenset({'x', 'b'}), frozenset({'p', 'y'}), frozenset({'k', 'z'}), 1j} == snapshot()\n"
            "    assert {frozenset({'x', 'b', 'q'}), frozenset({'p', 'y'}), ('t', frozenset({'u', 'v', 'w'})), None} == snapshot()\n"
            "    assert frozenset({frozenset({'aa', 'bb', 'cc'}), frozenset({'dd', 'ee'}), 'zz'}) == snapshot()\n"
            "    assert {frozenset({'a', 'b'}), frozenset({'c'}), frozenset({'b', 'd'}), frozenset({'e', 'f', 'g'})} == snapshot()\n"
            "    assert {(frozenset({'x', 'y'}), 1), (frozenset({'z'}), 0), (frozenset({'w', 'v'}), 2)} == snapshot()\n")
    outs = []
    for seed in ("0", "1", "2", "3", "12345"):
        rc, out, after, _ = world.real_pytest({"test_a.py": text}, ["--inline-snapshot=create"], env={"PYTHONHASHSEED": seed})
        outs.append(after["test_a.py"])
    PathLog.record("hashseed" + outs[0], nontrivial=True, sample={"hash_seeds": ["0", "1", "2", "3", "12345"], "identical": len(set(outs)) == 1, "file": outs[0][-300:]})
    return len(set(outs)) == 1 and "snapshot()" not in outs[0]


GLB = {"partial_order_case": partial_order_case, "set_order_case": set_order_case, "formatter_case": formatter_case, "history_case": history_case, "__name__": "harness.c16"}


def conditions(tier):
    q = tier == "quick"
    conds = []
    import math

    for n in (2, 3) if q else (2, 3, 4):
        params = [(f"k{i}", "int") for i in range(2 * n)] + [("perm", "int")]
        body = f"return partial_order_case({n}, [{', '.join(f'k{i}' for i in range(2 * n))}], perm)"
        name = f"partialorder_{n}"
        conds.append(Cond(name, mkfn(name, params, body, GLB, pre=[f"0 <= perm < {math.factorial(n)}"]), timeout=900, group="set-order",
                          bounds=f"{n} elements whose `<` is the product order of two symbolic ints (a partial order, like sets: sorted() does not raise), second iteration order = any of the {math.factorial(n)} permutations"))

    for n in (2, 3, 4) if q else (2, 3, 4, 5):
        for with_str in (False, True):
            params = [(f"e{i}", "int") for i in range(n)] + [("perm", "int")]
            distinct = " and ".join(f"e{i} != e{j}" for i in range(n) for j in range(i + 1, n))
            body = f"return set_order_case({n}, [{', '.join(f'e{i}' for i in range(n))}], perm, 'set', {with_str})"
            total = math.factorial(n)
            step = total if n < 5 else 15  # the largest case is split by permutation-index ranges (time budget only)
            for lo in range(0, total, step):
                name = f"setorder_{n}{'_mixed' if with_str else ''}" + (f"_p{lo}" if step < total else "")
                conds.append(Cond(name, mkfn(name, params, body, GLB, pre=[distinct, f"{lo} <= perm < {min(lo + step, total)}"]), timeout=1500, group="set-order",
                                  bounds=f"{n} distinct symbolic ints{' plus two strs (not orderable branch)' if with_str else ''}, second iteration order = permutation #{lo}..{min(lo + step, total) - 1} of {total}"))
    cases = [
        ("", "[n0, {1: n1}, (n2,)]", ["n0", "n1", "n2"], {"create"}),
        ("[c0, c1]", "[n0, n1, n2]", ["c0", "c1", "n0", "n1", "n2"], {"fix"}),
        ("{1: c0}", "{1: n0, 2: [n1]}", ["c0", "n0", "n1"], {"fix"}),
        ("P(a=c0)", "P(a=n0, b=n1, c=[n2])", ["c0", "n0", "n1", "n2"], {"fix"}),
        ("(c0,)", "(n0, n1)", ["c0", "n0", "n1"], {"fix"}),
        ("[h0, c1]", "[n0, n1]", ["h0", "c1", "n0", "n1"], {"fix", "update"}),
        # string leaves (concrete): the formatter must not change the value of a lone or nested literal
        ("", "QUOTES", ["n0"], {"create"}),
        ("c0", "QUOTES", ["c0"], {"fix"}),
        ("[c0]", "[n0, QUOTES, ' a ']", ["c0", "n0"], {"fix"}),
        ("{1: c0}", "{1: n0, 2: BOTH}", ["c0", "n0"], {"fix"}),
        ("", "' a '", ["n0"], {"create"}),
        ("", "[BYTES, n0]", ["n0"], {"create"}),
    ]
    for i, (o, n, names, appr) in enumerate(cases):
        body = f"return formatter_case({o!r}, {n!r}, {{{', '.join(f'{x!r}: {x}' for x in names)}}}, {appr!r})"
        name = f"formatter_{i}"
        conds.append(Cond(name, mkfn(name, [(x, "int") for x in names], body, GLB), timeout=900, group="formatter",
                          bounds=f"previous `{o or '<empty>'}`, observed `{n}`, approved {sorted(appr)}: rewritten under real black / black missing / identity format-command"))
    for hname, (ea, eb) in HISTORY.items():
        name = f"history_{hname}"
        fn = mkfn(name, [("x0", "int"), ("x1", "int"), ("b0", "bool"), ("b1", "bool"), ("first_runs", "bool")], f"return history_case({hname!r}, x0, x1, b0, b1, first_runs)", GLB, pre=["-2 <= x0 <= 2", "-2 <= x1 <= 2"])
        conds.append(Cond(name, fn, timeout=600, group="history",
                          bounds=f"one file, two tests creating `{ea}` then `{eb}` (ints in -2..2 and bools symbolic, so equal-but-differently-typed pairs are included); the first generated or not (symbolic)"))
    conds.append(Cond("setorder_twin", mkfn("setorder_twin", [("e0", "int"), ("e1", "int"), ("perm", "int")], "return set_order_case(2, [e0, e1], perm, 'set', False)", GLB, pre=["e0 != e1", "0 <= perm < 2"], post="not _"), timeout=60, twin=True))
    conds.append(Cond("hash_seed_processes", hash_seed_processes, concrete=True, group="contract-validation", bounds="5 real pytest processes (PYTHONHASHSEED 0 / 1 / 2 / 3 / 12345) creating sets of str/int/tuple/bytes/complex and nested frozensets of strs (orderable and not orderable): byte-identical files"))
    return conds


META = {
    "bounds": {"quick": "sets of <=4 distinct symbolic ints (optionally mixed with strs) under all permutations of the iteration order; 12 data shapes (6 with concrete string/bytes leaves) under 3 formatter configurations; 6 pairs of values (equal but differently typed ones included) generated one after the other in one session",
               "thorough": "sets of <=5 elements"},
    "outside": "real different interpreter processes are only the contract-validation item; dict iteration order is insertion order by the language (the written order is the value's own order)",
    "assumptions": ["an arbitrary hash seed is modelled as an arbitrary iteration order of the set (the code only iterates)",
                    "stub: repr of a symbolic int is a name token (canonical c<k>); subprocess.run of the format-command is an identity stub; a missing black is simulated by sys.modules['black'] = None"],
}

world.prewarm(lambda: history_case("tuple_int_then_bool", 1, 0, True, False, True), lambda: set_order_case(3, [3, 1, 2], 4, "set", False), lambda: formatter_case("[c0, c1]", "[n0, n1, n2]", {"c0": 1, "c1": 2, "n0": 1, "n1": 5, "n2": 6}, {"fix"}))
