"""C18 - end-of-session processing completes for every test program.

D-plugin (real pytest_configure / fixture / pytest_sessionfinish) on 'something went wrong earlier' templates; the values
and the approved categories are symbolic.  Oracle: pytest_sessionfinish returns without an exception (an exception that
the plain comparison raises too must surface in the *test*), and SourceFile._check never fails (no overlapping edits).
"""
from __future__ import annotations

import os

from harness.support import SUPPORT_NS
from inline_snapshot import Is
from vlib import world
from vlib.common import Cond, PathLog, mkfn
from vlib.world import W

ID = "C18"
world.install_plugin_shims()
HEAD = "from inline_snapshot import snapshot, Is\n\n"

# name -> (test body, names of symbolic ints used)
TEMPLATES = {
    "abort_from_other_directory": ("    assert x0 == snapshot(c0)\n    assert x1 == snapshot(c1)\n    assert x2 == snapshot(c2)\n", ["x0", "c0", "x1", "c1", "x2", "c2"]),
    "abort_then_later": ("    assert x0 == snapshot(c0)\n    assert x1 <= snapshot(c1)\n    assert x2 in snapshot([c2])\n", ["x0", "c0", "x1", "c1", "x2", "c2"]),
    "exception_between": ("    assert x0 == snapshot(c0)\n    raise ValueError('bug in test')\n    assert x1 == snapshot(c1)\n", ["x0", "c0", "x1", "c1"]),
    "nested_align_longer": ("    assert [x0, x1, x2] == snapshot([snapshot(c0), c1])\n", ["x0", "x1", "x2", "c0", "c1"]),
    "nested_align_shorter": ("    assert [x0] == snapshot([c1, snapshot(c0), c2])\n", ["x0", "c0", "c1", "c2"]),
    "nested_align_same": ("    assert [x0, x1] == snapshot([snapshot(c0), c1])\n", ["x0", "x1", "c0", "c1"]),
    "nested_handwritten_same": ("    assert [x0, x1] == snapshot([snapshot(h0), c1])\n", ["x0", "x1", "h0", "c1"]),
    "nested_handwritten_list": ("    assert [x0, x1] == snapshot([snapshot([h0, c0]), c1])\n", ["x0", "x1", "h0", "c0", "c1"]),
    "nested_empty_in_list": ("    assert [x0, x1] == snapshot([snapshot(), c1])\n", ["x0", "x1", "c1"]),
    "nested_empty_longer": ("    assert [x0, x1, x2] == snapshot([snapshot(), c1])\n", ["x0", "x1", "x2", "c1"]),
    "nested_parent_replaced": ("    assert x0 == snapshot([snapshot(c0), c1])\n", ["x0", "c0", "c1"]),
    "nested_parent_dict_to_list": ("    assert [x0] == snapshot({1: snapshot(c0)})\n", ["x0", "c0"]),
    "nested_in_dict_value": ("    assert {1: x0, 2: x1} == snapshot({1: snapshot(c0), 2: c1})\n", ["x0", "x1", "c0", "c1"]),
    "nested_in_dict_missing_key": ("    assert {2: x1} == snapshot({1: snapshot(c0), 2: c1})\n", ["x1", "c0", "c1"]),
    "nested_in_tuple": ("    assert (x0, x1, x2) == snapshot((c1, snapshot(c0)))\n", ["x0", "x1", "x2", "c0", "c1"]),
    "nested_in_dataclass": ("    assert P(a=x0, b=x1) == snapshot(P(a=snapshot(c0), b=c1))\n", ["x0", "x1", "c0", "c1"]),
    "is_in_list_longer": ("    assert [x0, x1, x2] == snapshot([Is(c0), c1])\n", ["x0", "x1", "x2", "c0", "c1"]),
    "unicode_dict_delete": ("    assert {'ä': x0} == snapshot({'ä': c0, 'b': c1})\n", ["x0", "c0", "c1"]),
    "unicode_before_nested": ("    assert ('é€', x0, [x1]) == ('é€', snapshot(c0), snapshot([c1, c2]))\n", ["x0", "x1", "c0", "c1", "c2"]),
    "unicode_multiline_literal_replaced": ("    assert [x0, 'ß', x1] == snapshot([\"\"\"é\nüö\"\"\", 'ß', \"\"\"\U0001F600\n€\"\"\"])  # ü\n", ["x0", "x1"]),
    "unicode_member_next_to_multiline_literal": ("    assert x0 in snapshot([\"\"\"é\nüö\"\"\"])\n    s = snapshot({1: \"\"\"é\nüö\"\"\"})\n    assert s[2] == x1\n", ["x0", "x1"]),
    "parenthesized_elements": ("    assert [x0, x1] == snapshot([(c0), c1, (c2)])\n    assert P(a=x0) == snapshot(P(a=(c0), b=(7)))\n    assert {1: x1} == snapshot({(1): (c1), 2: (c2)})\n", ["x0", "x1", "c0", "c1", "c2"]),
    "unicode_list_mixed": ("    a = 'äöü'; assert [x0, x1, 'ß'] == snapshot([c0, 'ß', c1]); b = '✓'\n", ["x0", "x1", "c0", "c1"]),
    "in_multiline_trailing_comma": ("    s = snapshot([\n        c0,\n        c1,\n    ])\n    assert x0 in s\n", ["x0", "c0", "c1"]),
    "in_spaces_before_bracket": ("    assert x0 in snapshot([c0, c1 ])\n    assert x1 in snapshot( [ c2 , ] )\n", ["x0", "x1", "c0", "c1", "c2"]),
    "getitem_multiline": ("    s = snapshot({\n        1: c0,\n        2: c1,\n    })\n    assert s[3] == x0\n    assert s[1] == x1\n", ["x0", "x1", "c0", "c1"]),
    "bound_compare_raises": ("    assert 'a' <= snapshot(c0)\n", ["c0"]),
    "bound_compare_raises_second": ("    for x in [x0, 'a']:\n        assert x <= snapshot(c0)\n", ["x0", "c0"]),
    "getitem_is_value_loop": ("    for i in [x0, x0]:\n        assert snapshot({1: Is(i)})[1] == i\n", ["x0"]),
    "mixed_operations": ("    s = snapshot(c0)\n    assert x0 == s\n    assert x1 <= s\n", ["x0", "x1", "c0"]),
    "changing_argument": ("    for i in [x0, x1]:\n        assert i == snapshot(i)\n", ["x0", "x1"]),
    "eq_raises": ("    assert Boom() == snapshot(c0)\n", ["c0"]),
    "getitem_nested_two_levels": ("    s = snapshot({1: {2: c0}})\n    assert s[1][2] == x0\n    assert s[3][4] == x1\n", ["x0", "x1", "c0"]),
    "in_compare_raises": ("    s = snapshot([c0, c1])\n    try:\n        assert NoInts() in s\n    except TypeError:\n        pass\n    assert x0 in s\n", ["x0", "c0", "c1"]),
    "in_compare_raises_only": ("    try:\n        assert NoInts() in snapshot([c0])\n    except TypeError:\n        pass\n    assert x0 == snapshot(c1)\n", ["x0", "c0", "c1"]),
    "unused_dataclass_variable": ("    s = snapshot(pvar)\n    assert x0 == snapshot(c0)\n    t = snapshot([pvar, c1])\n", ["x0", "c0", "c1"]),
    "two_tests_share_failing": ("    assert x0 == s_mod\n", ["x0", "c0"]),
}
EXTRA_HEAD = {"two_tests_share_failing": "s_mod = snapshot([c0])\n\n\ndef test_0():\n    assert [x0, x0] == s_mod\n\n"}


class NoInts:
    def __eq__(self, other):
        if isinstance(other, int):
            raise TypeError("no ints")
        return isinstance(other, NoInts)

    def __repr__(self):
        return "NoInts()"


class Boom:
    def __eq__(self, other):
        raise RuntimeError("boom in __eq__")


def short_report_case(tname, vals):
    """--inline-snapshot=short-report: the summary at the end of the session is printed for any number of pending
    changes per category without an internal error, and no file is touched"""
    ns = dict(SUPPORT_NS)
    ns["Boom"] = Boom
    ns["Is"] = Is
    ns.update(vals)
    world.reset(ns)
    body, _ = TEMPLATES[tname]
    t = HEAD + EXTRA_HEAD.get(tname, "") + "def test_a():\n" + body
    W.no_canon = True
    try:
        r = world.plugin_session(t, cli="short-report")
    finally:
        W.no_canon = False
    PathLog.record(f"short{tname}{type(r.finish_error).__name__}", nontrivial=True, sample={"template": tname, "flags": ["short-report"], "sessionfinish_error": repr(r.finish_error) if r.finish_error is not None else None})
    return r.usage_error is None and r.finish_error is None and not r.written


def finish_case(tname, fbits, vals):
    ns = dict(SUPPORT_NS)
    ns["Boom"] = Boom
    ns["NoInts"] = NoInts
    ns["pvar"] = SUPPORT_NS["P"](a=1)
    ns["Is"] = Is
    ns.update(vals)
    world.reset(ns)
    body, _ = TEMPLATES[tname]
    t = HEAD + EXTRA_HEAD.get(tname, "") + "def test_a():\n" + body
    flags = [n for n, b in zip(["create", "fix", "trim", "update"], fbits) if b]
    W.no_canon = True  # the rewritten text is only parsed here, never evaluated: no fork on the rendered token
    try:
        r = world.plugin_session(t, cli=",".join(flags) if flags else "report", cwd_outside=tname.endswith("_from_other_directory"))
    finally:
        W.no_canon = False
    err = r.finish_error
    PathLog.record(f"{tname}{flags}{type(err).__name__}{sorted(r.written)}", nontrivial=True,
                   sample={"template": tname, "flags": flags, "test_outcomes": {k[1]: v for k, v in r.outcomes.items()}, "sessionfinish_error": repr(err) if err is not None else None,
                           "rewritten": world.snapshot_arg_sources(world.text_after(r)) if r.written else None})
    if r.usage_error is not None:
        return False
    if err is not None:
        return False
    if r.written:
        import ast

        with world.NoTracing():
            ast.parse(str(world.text_after(r)))
    return True


GLB = {"short_report_case": short_report_case, "finish_case": finish_case, "__name__": "harness.c18"}


def conditions(tier):
    active_kf = set(filter(None, os.environ.get("VERIF_KF_ACTIVE", "").split(",")))
    conds = []
    fb = [(f"f{i}", "bool") for i in range(4)]
    for tname, (body, names) in TEMPLATES.items():
        if f"C18-{tname}" in active_kf:
            continue  # open known finding: region = this template (any values, any flags); witness replayed by the runner
        vd = "{" + ", ".join(f"{n!r}: {n}" for n in names) + "}"
        name = f"finish_{tname}"
        fn = mkfn(name, fb + [(n, "int") for n in names], f"return finish_case({tname!r}, [f0, f1, f2, f3], {vd})", GLB)
        conds.append(Cond(name, fn, timeout=900, group=tname, bounds=f"template `{tname}`: {body.strip()!r}; values symbolic ints; every subset of create/fix/trim/update approved"))
    for tname in ("abort_then_later", "mixed_operations", "getitem_multiline", "nested_list_shorter", "unicode_list_mixed", "two_tests_share_failing", "changing_argument", "parenthesized_elements"):
        if tname not in TEMPLATES:
            continue
        body, names = TEMPLATES[tname]
        vd = "{" + ", ".join(f"{n!r}: {n}" for n in names) + "}"
        name = f"short_report_{tname}"
        conds.append(Cond(name, mkfn(name, [(n, "int") for n in names], f"return short_report_case({tname!r}, {vd})", GLB), timeout=600, group="short-report",
                          bounds=f"template `{tname}` with --inline-snapshot=short-report (0, 1 or several pending changes per category, decided by the symbolic values)"))
    tw = mkfn("finish_twin", fb + [("x0", "int"), ("c0", "int"), ("x1", "int"), ("c1", "int")], "return finish_case('exception_between', [f0, f1, f2, f3], {'x0': x0, 'c0': c0, 'x1': x1, 'c1': c1})", GLB, post="not _")
    conds.append(Cond("finish_twin", tw, timeout=60, twin=True))
    return conds


META = {
    "bounds": {"quick": f"{len(TEMPLATES)} templates (non-ASCII lines incl. replaced multi-line literals, failing comparison before later snapshots, exception in the test, nested snapshot() in aligned list/tuple/dict/dataclass of different lengths, nested snapshot whose parent is replaced, comparisons that raise, snapshot used with the wrong container type, mixed operations, changing argument, module-level snapshot shared by a failing test); all values symbolic ints; all 16 approved subsets",
               "thorough": "same"},
    "outside": "test programs outside the template list; layouts (C03); faults of the environment (C15); hand-written snapshot values of the wrong container type for the operation (`x in snapshot(5)`, `x in snapshot((1, 2))`, `snapshot(5)[k]`) crash at collection on this tree but are not documented usage",
    "assumptions": ["an exception that the plain comparison raises too must surface in the test; only exceptions escaping pytest_sessionfinish (or configure/fixture) count",
                    "rich output replaced by a null console"],
}

world.prewarm(lambda: finish_case("abort_then_later", [False, True, False, False], {"x0": 1, "c0": 2, "x1": 1, "c1": 5, "x2": 1, "c2": 1}))
