"""C13 - external storage stays consistent across any history of runs.

Inductive single step from a symbolic pre-state (which data items are persisted / outsourced-but-unreferenced, which test
file references which item, which file takes part, which categories are approved) on a real scratch storage directory:
(a) storage API step: prune_new_files / outsource / persist / lookup by prefix / remove;
(b) session step: the real plugin hooks run a two-file project against the pre-seeded storage.
One step from every invariant-satisfying state covers histories of any length (if the invariant is right).
"""
from __future__ import annotations

import hashlib
import pathlib
import shutil

import inline_snapshot._config as CFG
from inline_snapshot._external import DiscStorage, HashError, external, outsource
from inline_snapshot._global_state import snapshot_env
from vlib import world
from vlib.common import Cond, PathLog, mkfn, scratch_dir
from vlib.world import W

ID = "C13"
world.install_plugin_shims()


def _find_items():
    """three text items; items 1 and 2 share the first two hex digits of their SHA-256 (ambiguous short prefix)"""
    seen = {}
    pair = None
    for k in range(100000):
        t = f"item{k}"
        h = hashlib.sha256(t.encode()).hexdigest()
        if h[:2] in seen and pair is None:
            pair = (seen[h[:2]], t)
            break
        seen[h[:2]] = t
    first = "alpha"
    while hashlib.sha256(first.encode()).hexdigest()[:2] == hashlib.sha256(pair[0].encode()).hexdigest()[:2]:
        first += "x"
    return [first, pair[0], pair[1]]


TEXTS = _find_items()
DATA = [t.encode() for t in TEXTS]
H = [hashlib.sha256(d).hexdigest() for d in DATA]
SUFFIX = ".txt"


def sdir():
    with world.NoTracing():
        d = pathlib.Path(scratch_dir()) / "c13" / "external"
        if d.parent.exists():
            shutil.rmtree(d.parent)
        d.mkdir(parents=True)
        return d


def listing(d):
    with world.NoTracing():
        return sorted(f.name for f in d.iterdir() if f.name != ".gitignore") if d.exists() else []


def integrity(d):
    """every stored file is named after the SHA-256 of its bytes (+ -new) + suffix"""
    with world.NoTracing():
        for f in d.iterdir():
            if f.name == ".gitignore":
                continue
            stem = f.name[: -len(f.suffix)] if f.suffix else f.name
            if stem.endswith("-new"):
                stem = stem[:-4]
            if hashlib.sha256(f.read_bytes()).hexdigest() != stem:
                return False
        return True


def api_step(p, n, op, j, hash_length):
    """p[i]/n[i]: item i persisted / present as -new file. op: 0 prune, 1 outsource(j), 2 persist(prefix of j),
    3 lookup(prefix of j), 4 remove(prefix of j)."""
    d = sdir()
    pre = []
    with world.NoTracing():
        pass
    for i in range(3):
        if p[i]:
            (d / (H[i] + SUFFIX)).write_bytes(DATA[i])
            pre.append(H[i] + SUFFIX)
        if n[i]:
            (d / (H[i] + "-new" + SUFFIX)).write_bytes(DATA[i])
            pre.append(H[i] + "-new" + SUFFIX)
    pre.sort()
    jj = 0 if j == 0 else (1 if j == 1 else 2)
    old_len = CFG.config.hash_length
    CFG.config.hash_length = hash_length
    ok = True
    try:
        with snapshot_env() as st:
            st.storage = DiscStorage(d)
            prefix = H[jj][:hash_length] + "*" + SUFFIX
            # which stored names match the prefix glob
            matches = [x for x in pre if x.startswith(H[jj][:hash_length]) and x.endswith(SUFFIX)]
            if op == 0:
                st.storage.prune_new_files()
                post = listing(d)
                ok = post == [x for x in pre if "-new." not in x]
                sig = "prune"
            elif op == 1:
                e = outsource(TEXTS[jj])
                post = listing(d)
                ok = repr(e) == (f'external("{H[jj][:hash_length]}*{SUFFIX}")' if hash_length < 64 else f'external("{H[jj]}{SUFFIX}")')
                ok = ok and e == external(H[jj] + SUFFIX)
                if (H[jj] + SUFFIX) in pre or (H[jj] + "-new" + SUFFIX) in pre:
                    ok = ok and post == pre
                else:
                    ok = ok and post == sorted(pre + [H[jj] + "-new" + SUFFIX])
                sig = "outsource"
            elif op == 2:
                st.storage.persist(prefix)
                post = listing(d)
                if len(matches) == 1 and matches[0].endswith("-new" + SUFFIX):
                    ok = post == sorted([x for x in pre if x != matches[0]] + [matches[0].replace("-new", "")])
                else:
                    ok = post == pre  # persisted already, missing or ambiguous: nothing is renamed
                sig = "persist"
            elif op == 3:
                try:
                    data = external(prefix)._load_value()
                    # a unique match resolves to exactly the bytes whose SHA-256 starts with the prefix
                    ok = len(matches) == 1 and hashlib.sha256(data).hexdigest().startswith(H[jj][:hash_length])
                except HashError:
                    ok = len(matches) != 1
                post = listing(d)
                ok = ok and post == pre
                sig = "lookup"
            else:
                try:
                    st.storage.remove(prefix)
                    post = listing(d)
                    ok = len(matches) == 1 and post == [x for x in pre if x != matches[0]]
                except HashError:
                    post = listing(d)
                    ok = len(matches) != 1 and post == pre
                sig = "remove"
            ok = ok and integrity(d)
    finally:
        CFG.config.hash_length = old_len
    PathLog.record(f"{sig}{pre}{jj}{hash_length}{post}", nontrivial=pre != post or sig in ("lookup",), sample={"op": sig, "item": jj, "hash_length": hash_length, "before": [x[:8] + x[64:] for x in pre], "after": [x[:8] + x[64:] for x in post]})
    return ok


# ---------------------------------------------------------------- session step (real hooks)

HEAD = "from inline_snapshot import snapshot, outsource, external\n\n"


def file_text(refs, new_item, hash_length):
    lines = ["def test_x():"]
    for i in range(3):
        if refs[i]:
            lines.append(f'    assert outsource("{TEXTS[i]}") == snapshot(external("{H[i][:hash_length]}*{SUFFIX}"))')
    if new_item >= 0:
        lines.append(f'    assert outsource("{TEXTS[new_item]}") == snapshot()')
    if len(lines) == 1:
        lines.append("    assert 1 == snapshot(1)")
    return HEAD + "\n".join(lines) + "\n"


def session_step(p, n, ra, rb, b_participates, new_item, fbits, hash_length, review=False, answer=False):
    """pre-state invariant: a reference in a test file implies the data is persisted; never persisted and -new at once."""
    world.reset({})
    p = [True if x else False for x in p]
    n = [True if x else False for x in n]
    ra = [True if x else False for x in ra]
    rb = [True if x else False for x in rb]
    new_item = -1 if new_item < 0 else (0 if new_item == 0 else (1 if new_item == 1 else 2))
    flags = [name for name, b in zip(["create", "fix", "trim", "update"], fbits) if b]
    review = True if review else False
    answer = True if answer else False
    cli_flags = flags + (["review"] if review else [])
    if review and answer:
        # every question is answered with yes: a category is approved if it is asked about (it has pending changes)
        pass
    storage = {}
    pre = []
    for i in range(3):
        if p[i]:
            storage[H[i] + SUFFIX] = DATA[i]
            pre.append(H[i] + SUFFIX)
        if n[i]:
            storage[H[i] + "-new" + SUFFIX] = DATA[i]
            pre.append(H[i] + "-new" + SUFFIX)
    pre.sort()
    ta = file_text(ra, new_item, hash_length)
    tb = file_text(rb, -1, hash_length)
    files = {"test_a.py": ta}
    if b_participates:
        files["test_b.py"] = tb
    pyproject = f"[tool.inline-snapshot]\nhash-length={hash_length}\n"
    r = world.plugin_session(files, cli=",".join(cli_flags) if cli_flags else "report", storage_files=storage, pyproject=pyproject, answers=[answer] * 4)
    if review and answer:
        # approved interactively: create is asked when the new outsourcing is pending; trim is never asked (no trim change)
        if new_item >= 0 and "create" not in flags:
            flags = flags + ["create"]
    if r.usage_error is not None or r.finish_error is not None:
        return False
    post = r.storage
    ta_after = world.text_after(r, "test_a.py")
    tb_after = world.text_after(r, "test_b.py") if b_participates else tb
    with world.NoTracing():
        ok = True
        why = ""
        # (3) an outsourced but unreferenced file never survives the start of a session
        created_now = set()
        if new_item >= 0:
            created_now.add(H[new_item])
        for i in range(3):
            if ra[i] or (b_participates and rb[i]):
                created_now.add(H[i])
        for x in post:
            if "-new." in x and x[:64] not in created_now:
                ok, why = False, f"-new file {x[:8]} survived the session start"
        # (2) a persisted file appears only together with a written reference
        for x in post:
            if "-new." not in x and x not in pre:
                if not ("create" in flags and x[:hash_length] in ta_after + tb_after):
                    ok, why = False, f"persisted {x[:8]} appeared without approved reference"
        # (4) a persisted file is removed only by an approved trim and only if unreferenced by participating files
        for x in pre:
            if "-new." not in x and x not in post:
                referenced = x[:hash_length] in ta_after or (b_participates and x[:hash_length] in tb_after)
                if "trim" not in flags or referenced:
                    ok, why = False, f"persisted {x[:8]} removed (trim approved: {'trim' in flags}, referenced: {referenced})"
        # persist-before-write: every reference written into a participating file resolves to persisted data
        import re as _re

        for text, before in ((ta_after, ta), (tb_after, tb)):
            for ref in _re.findall(r'external\("([0-9a-f]+)\*?\.txt"\)', text):
                if f'external("{ref}' not in before:
                    hits = [x for x in post if x.startswith(ref) and "-new." not in x]
                    if len(hits) != 1:
                        ok, why = False, f"new reference {ref} resolves to {len(hits)} persisted files"
        # (1) integrity
        d = r.root / ".inline-snapshot" / "external"
        if d.exists() and not integrity(d):
            ok, why = False, "stored bytes do not match the name"
    PathLog.record(f"{pre}{ra}{rb}{b_participates}{new_item}{flags}{hash_length}{post}", nontrivial=pre != post,
                   sample={"flags": flags, "before": [x[:8] + x[64:] for x in pre], "after": [x[:8] + x[64:] for x in post], "refs_a": ra, "refs_b": rb, "b_participates": bool(b_participates),
                           "new_outsourcing": new_item, "why": why})
    return ok


def inactive_session_step(p, n, ra, route, ci_idx):
    """a session in which inline-snapshot is disabled (flag / CI / xdist) still starts by pruning the outsourced but
    unreferenced -new files, and removes or persists nothing else"""
    world.reset({})
    p = [True if x else False for x in p]
    n = [True if x else False for x in n]
    ra = [True if x else False for x in ra]
    route = 0 if route == 0 else (1 if route == 1 else 2)
    storage = {}
    pre = []
    for i in range(3):
        if p[i]:
            storage[H[i] + SUFFIX] = DATA[i]
            pre.append(H[i] + SUFFIX)
        if n[i]:
            storage[H[i] + "-new" + SUFFIX] = DATA[i]
            pre.append(H[i] + "-new" + SUFFIX)
    pre.sort()
    ta = file_text(ra, -1, 12)
    ci_var = None
    if route == 1:
        for k, v in enumerate(["CI", "GITHUB_ACTIONS", "TF_BUILD"]):
            if ci_idx == k:
                ci_var = v
        if ci_var is None:
            ci_var = "CI"
    r = world.plugin_session({"test_a.py": ta}, cli="disable" if route == 0 else None, ci_var=ci_var, nproc=(2 if route == 2 else None), storage_files=storage,
                             pyproject="[tool.inline-snapshot]\nhash-length=12\n")
    if r.usage_error is not None or r.finish_error is not None:
        return False
    post = r.storage
    ok = True
    for x in post:
        if "-new." in x:
            ok = False  # nothing is outsourced in this session: every -new file is a leftover
    for x in pre:
        if "-new." not in x and x not in post:
            ok = False
    for x in post:
        if "-new." not in x and x not in pre:
            ok = False
    if r.written:
        ok = False
    PathLog.record(f"inactive{route}{pre}{post}", nontrivial=pre != post, sample={"disabled_by": ["--inline-snapshot=disable", "CI variable", "xdist"][route], "before": [x[:8] + x[64:] for x in pre], "after": [x[:8] + x[64:] for x in post]})
    return ok


GLB = {"inactive_session_step": inactive_session_step, "api_step": api_step, "session_step": session_step, "__name__": "harness.c13"}
PB = [(f"p{i}", "bool") for i in range(3)] + [(f"n{i}", "bool") for i in range(3)]
INV = "not (p0 and n0) and not (p1 and n1) and not (p2 and n2)"


def conditions(tier):
    q = tier == "quick"
    conds = []
    for hl in (2, 12, 64):
        for op in range(5):
            name = f"api_op{op}_hl{hl}"
            body = f"return api_step([p0, p1, p2], [n0, n1, n2], {op}, j, {hl})"
            fn = mkfn(name, PB + [("j", "int")], body, GLB, pre=[INV, "0 <= j <= 2"])
            conds.append(Cond(name, fn, timeout=600, group="api",
                              bounds=f"storage API step {['prune_new_files', 'outsource', 'persist', 'lookup', 'remove'][op]} on item j from every state of 3 items (persisted / -new / absent each; items 1 and 2 share a 2-digit hash prefix), hash-length {hl}"))
    RB = [(f"ra{i}", "bool") for i in range(3)] + [(f"rb{i}", "bool") for i in range(3)]
    FB = [(f"f{i}", "bool") for i in range(4)]
    inv2 = INV + " and " + " and ".join(f"((not ra{i} and not rb{i}) or p{i})" for i in range(3))
    for hl in (2, 12) if q else (2, 12, 64):
        for new_item in (-1, 0, 2):
            for bp in (False, True):
                name = f"session_hl{hl}_new{new_item if new_item >= 0 else 'none'}_{'ab' if bp else 'a'}"
                body = f"return session_step([p0, p1, p2], [n0, n1, n2], [ra0, ra1, ra2], [rb0, rb1, rb2], {bp}, {new_item}, [f0, f1, f2, f3], {hl}, review, answer)"
                pre = [inv2, "not p2 and not n2 and not ra2 and not rb2" if q else "True", "not f1 and not f3"]
                if hl == 2:
                    pre.append("not (ra1 and ra2) and not (rb1 and rb2) and not (p1 and p2) and not (p1 and n2) and not (n1 and p2) and not (n1 and n2)")  # an ambiguous 2-digit reference is a usage error of the project, not a history
                fn = mkfn(name, PB + RB + FB + [("review", "bool"), ("answer", "bool")], body, GLB, pre=pre + ["review or not answer"])
                conds.append(Cond(name, fn, timeout=1200, group="session",
                                  bounds=f"one real session (hooks in process) on a two-file project from every invariant-satisfying storage state; file b {'takes part' if bp else 'does not take part'}; "
                                         f"{'no new outsourcing' if new_item < 0 else 'item %d outsourced into an empty snapshot' % new_item}; create/trim approved by flag or not, review mode with all-yes / all-no answers; hash-length {hl}{'; item 2 absent (quick)' if q else ''}"))
    if q:
        # the complete hash as reference (hash-length 64): one cheap cell in the quick tier, all cells in thorough
        name = "session_hl64_new0_a"
        body = "return session_step([p0, p1, p2], [n0, n1, n2], [ra0, ra1, ra2], [rb0, rb1, rb2], False, 0, [f0, f1, f2, f3], 64, review, answer)"
        pre = [inv2, "not p1 and not n1 and not ra1 and not rb1 and not p2 and not n2 and not ra2 and not rb2 and not rb0", "not f1 and not f3", "review or not answer"]
        conds.append(Cond(name, mkfn(name, PB + RB + FB + [("review", "bool"), ("answer", "bool")], body, GLB, pre=pre), timeout=1200, group="session",
                          bounds="one real session, only item 0 in play, item 0 outsourced into an empty snapshot, references written with the complete hash (hash-length 64)"))
    RA = [(f"ra{i}", "bool") for i in range(3)]
    inv3 = INV + " and " + " and ".join(f"(not ra{i} or p{i})" for i in range(3))
    for route in range(3):
        name = f"inactive_session_{['flag', 'ci', 'xdist'][route]}"
        body = f"return inactive_session_step([p0, p1, p2], [n0, n1, n2], [ra0, ra1, ra2], {route}, ci)"
        conds.append(Cond(name, mkfn(name, PB + RA + [("ci", "int")], body, GLB, pre=[inv3, "0 <= ci <= 2"]), timeout=900, group="session",
                          bounds=f"one real session disabled by {['--inline-snapshot=disable', 'a CI environment variable (symbolic which)', 'xdist (-n 2)'][route]} from every invariant-satisfying storage state of 3 items: -new leftovers are pruned, nothing else changes"))
    tw = mkfn("api_twin", PB + [("j", "int")], "return api_step([p0, p1, p2], [n0, n1, n2], 2, j, 12)", GLB, pre=[INV, "0 <= j <= 2 and n1"], post="not _")
    conds.append(Cond("api_twin", tw, timeout=60, twin=True))
    return conds


META = {
    "bounds": {"quick": "3 data items (two sharing a 2-hex-digit prefix), suffix .txt, hash-length in {2, 12, 64}; API ops from all 27 states; session step: 2 files, item 2 absent, hash-length {2, 12} (+ one cell with the complete hash, 64), flags or review mode with all-yes / all-no answers",
               "thorough": "session step with all 3 items and hash-length {2, 12, 64}"},
    "outside": "more items/files, other suffixes, storage-dir configuration, concurrent sessions, crashes (C15)",
    "assumptions": ["representation invariant of the pre-state: an item is never persisted and -new at once; a reference in a test file implies the data is persisted",
                    "SHA-256 and the file system are executed for real (concrete data); the symbolic part is the state/flag/reference bits",
                    "a file referenced only by a test file that does not take part may be removed by an approved trim (the property permits it)"],
}

world.prewarm(lambda: api_step([True, False, False], [False, True, False], 2, 1, 12),
              lambda: session_step([True, False, False], [False, True, False], [True, False, False], [False, False, False], True, 2, [True, False, True, False], 12))
