"""C10 - parts the user controls are never rewritten  (and C11 (b): unchanged elements keep their source text).

D-core fix/create/update runs on snapshots that contain user-controlled sub-expressions (Is(...), f-strings, containers
with star-expressions, nested snapshot()) next to managed siblings; all int leaves symbolic, including values that make
the user-controlled part compare unequal.
"""
from __future__ import annotations

import ast
import re

from harness.support import SUPPORT_NS
from inline_snapshot import Is
from vlib import world
from vlib.common import Cond, PathLog, mkfn
from vlib.world import W

ID = "C10"
world.install_shims()
HEAD = "from inline_snapshot import snapshot, Is\n\n"


class _Any:
    """stands for a user-controlled part when the managed siblings are judged"""

    def __eq__(self, other):
        return True

    def __ne__(self, other):
        return False

    def __repr__(self):
        return "ANY"

    __hash__ = None


ANY = _Any()
UNMANAGED_RE = re.compile(r'Is\([^()]*\)|f"[^"]*"|snapshot\([^()]*\)')


def unmanaged_case(old_src, new_src, leafvals, approved, extra_ns=None, star=False):
    ns = dict(SUPPORT_NS)
    ns["Is"] = Is
    ns.update(extra_ns or {})
    ns.update(leafvals)
    world.reset(ns)
    new = eval(new_src, dict(W.ns))
    W.ns["new"] = new
    t = HEAD + f"def test_a():\n    assert new == snapshot({old_src})\n"
    r = world.core_session(t, approved)
    with world.NoTracing():
        text = str(r.text)
        ast.parse(text)
        arg = world.snapshot_arg_sources(text)[0]
        before = UNMANAGED_RE.findall(old_src)
        after = UNMANAGED_RE.findall(arg)
        nested_inner = [u for u in before if u.startswith("snapshot(")]
    PathLog.record(old_src + "=>" + arg, nontrivial=arg != old_src, sample={"previous": old_src, "observed": new_src, "approved": sorted(approved), "rewritten": arg})
    if star:
        with world.NoTracing():
            return arg == world.snapshot_arg_sources(str(r.text_before))[0]  # containers holding star-expressions are left alone, byte for byte
    # 0. no change edits a user-controlled expression itself (deleting the element/entry that holds it is allowed)
    with world.NoTracing():
        for c in r.changes:
            node = getattr(c, "node", None)
            if node is None or c.flag not in approved:
                continue
            seg = ast.get_source_segment(str(r.text_before), node)
            if type(c).__name__ == "Replace" and seg is not None and UNMANAGED_RE.fullmatch(seg) and not seg.startswith("snapshot("):
                return False
    # 1. every user-controlled segment is kept verbatim or has gone together with its element; none is altered or added
    for u in after:
        if u.startswith("snapshot("):
            continue  # a nested snapshot is managed on its own: its argument may be edited by its own changes
        if u not in before:
            return False
    if len([u for u in after if not u.startswith("snapshot(")]) > len([u for u in before if not u.startswith("snapshot(")]):
        return False
    if len([u for u in after if u.startswith("snapshot(")]) > len(nested_inner):
        return False
    # 2. the managed siblings are repaired: with the user-controlled parts counted as matching, the comparison holds
    if "fix" in approved:
        probe = UNMANAGED_RE.sub("ANY", arg)
        env = world.eval_ns()
        env["ANY"] = ANY
        val = eval(probe, env)
        if not (val == new):
            return False
    return True


def never_compared_case(old_src, leafvals, extra_ns, approved):
    """a snapshot that no test compares: whatever is approved, star-expressions, f-strings and Is(...) in it keep their
    text, the file stays valid Python and the argument keeps its value"""
    ns = dict(SUPPORT_NS)
    ns["Is"] = Is
    ns.update(extra_ns or {})
    ns.update(leafvals)
    world.reset(ns)
    t = HEAD + f"s_unused = snapshot({old_src})\n\n\ndef test_a():\n    pass\n"
    r = world.core_session(t, approved)
    with world.NoTracing():
        text = str(r.text)
        try:
            ast.parse(text)
        except SyntaxError:
            PathLog.record("nc-syntax" + text, nontrivial=True, sample={"previous": old_src, "rewritten_file": text[-120:]})
            return False
        arg = world.snapshot_arg_sources(text)[0]
        keep = re.findall(r'\*\*?\w+|Is\([^()]*\)|f"[^"]*"', old_src)
    PathLog.record("nc" + old_src + "=>" + arg, nontrivial=arg != old_src, sample={"previous": old_src, "approved": sorted(approved), "rewritten": arg})
    for u in keep:
        if u not in arg:
            return False
    env = world.eval_ns()
    return eval(arg, dict(env)) == eval(old_src, dict(env))


NEVER_COMPARED = [
    ("star_list", "[*rest, h0]", ["h0", "c1"], "{'rest': [c1]}"),
    ("star_list_two", "[h0, *rest]", ["h0", "c1"], "{'rest': [c1, c1]}"),
    ("star_dict", "{**rest, 3: h0}", ["h0", "c1"], "{'rest': {2: c1}}"),
    ("star_call", "P(*rest, b=h0)", ["h0", "c1"], "{'rest': [c1]}"),
    ("star_call_kw", "P(h0, **rest)", ["h0", "c1"], "{'rest': {'b': c1}}"),
    ("star_nested", "{1: [*rest], 2: h0}", ["h0", "c1"], "{'rest': [c1, c1]}"),
    ("fstring", '[f"{s0}!", h0]', ["h0"], "{'s0': 'abc'}"),
    ("fstring_top", 'f"{s0}"', [], "{'s0': 'abc'}"),
    ("is_list", "[Is(c1), h0]", ["h0", "c1"], "None"),
]


def in_is_case(leafvals, approved):
    """`x in snapshot([Is(c0), h1])`: whatever is approved, the Is(...) element is not rewritten"""
    ns = {"Is": Is}
    ns.update(leafvals)
    world.reset(ns)
    t = HEAD + "def test_a():\n    assert x0 in snapshot([Is(c0), h1])\n"
    r = world.core_session(t, approved)
    with world.NoTracing():
        arg = world.snapshot_arg_sources(str(r.text))[0]
        before = UNMANAGED_RE.findall(world.snapshot_arg_sources(str(r.text_before))[0])
    PathLog.record("inis" + arg, nontrivial=r.changed, sample={"previous": "[Is(c0), h1]", "approved": sorted(approved), "rewritten": arg})
    # the Is element is kept verbatim, or removed as a whole by an approved trim when it was not the tested member
    if before[0] in arg:
        return True
    return "trim" in approved and "Is(" not in arg and not (leafvals["c0"] == leafvals["x0"])


def is_equal_case(old_src, new_src, leafvals):
    """if the user-controlled part matches and everything else too, nothing at all is rewritten"""
    ns = dict(SUPPORT_NS)
    ns["Is"] = Is
    ns.update(leafvals)
    world.reset(ns)
    new = eval(new_src, dict(W.ns))
    old = eval(old_src, dict(W.ns))
    W.ns["new"] = new
    t = HEAD + f"def test_a():\n    assert new == snapshot({old_src})\n"
    r = world.core_session(t, {"create", "fix", "trim"})
    PathLog.record("iseq" + r.text, nontrivial=r.changed, sample={"previous": old_src, "rewritten": world.snapshot_arg_sources(r.text)[0]})
    if old == new:
        return not r.changed
    return True


# ------------------------------------------------------------------ C11 (b): verbatim survival under fix only


def survival_case(kind, n_old, n_new, olds, news, wrapped=()):
    """old elements are hand-written expressions h<k>; fix only.  Elements of the equal common prefix and suffix keep
    their source text."""
    ns = {f"h{i}": v for i, v in enumerate(olds)}
    world.reset(ns)
    new = list(news) if kind == "list" else tuple(news)
    W.ns["new"] = new
    hs = [(f"Is(h{i})" if i in wrapped else f"h{i}") for i in range(n_old)]
    W.ns["Is"] = Is
    old_src = "[" + ", ".join(hs) + "]" if kind == "list" else ("(" + ", ".join(hs) + ("," if n_old == 1 else "") + ")")
    t = HEAD + f"def test_a():\n    assert new == snapshot({old_src})\n"
    r = world.core_session(t, {"fix"})
    with world.NoTracing():
        arg = world.snapshot_arg_sources(str(r.text))[0]
        node = ast.parse(arg, mode="eval").body
        elts = [ast.get_source_segment(arg, e) for e in node.elts] if isinstance(node, (ast.List, ast.Tuple)) else None
    PathLog.record(old_src + "=>" + arg, nontrivial=arg != old_src, sample={"previous": old_src, "observed_len": n_new, "rewritten": arg})
    if elts is None or len(elts) != n_new:
        return False
    p = 0
    while p < n_old and p < n_new and olds[p] == news[p]:
        p += 1
    for k in range(p):
        if elts[k] != hs[k]:
            return False
    s = 0
    while s < n_old - p and s < n_new - p and olds[n_old - 1 - s] == news[n_new - 1 - s]:
        s += 1
    for k in range(s):
        if elts[n_new - 1 - k] != hs[n_old - 1 - k]:
            return False
    # and the value is right
    if wrapped:
        env = world.eval_ns()
        env["ANY"] = ANY
        return eval(UNMANAGED_RE.sub("ANY", arg), env) == new  # user-controlled elements count as matching
    vals = world.snapshot_values(r.text, {"Is": Is})[0]
    return vals == new


def survival_keyed(old_src, new_src, keys_old, leafvals):
    """dict displays / keyword arguments are matched by key: every equal entry under a surviving key keeps its text.
    keys_old: [(key as it appears in the source, hand-written value name)]"""
    ns = dict(SUPPORT_NS)
    ns.update(leafvals)
    world.reset(ns)
    new = eval(new_src, dict(W.ns))
    old = eval(old_src, dict(W.ns))
    W.ns["new"] = new
    t = HEAD + f"def test_a():\n    assert new == snapshot({old_src})\n"
    r = world.core_session(t, {"fix"})
    with world.NoTracing():
        arg = world.snapshot_arg_sources(str(r.text))[0]
        node = ast.parse(arg, mode="eval").body
        got = {}
        if isinstance(node, ast.Dict):
            for k, v in zip(node.keys, node.values):
                got[ast.get_source_segment(arg, k)] = ast.get_source_segment(arg, v)
        elif isinstance(node, ast.Call):
            for kw in node.keywords:
                got[kw.arg] = ast.get_source_segment(arg, kw.value)
    PathLog.record(old_src + "=>" + arg, nontrivial=arg != old_src, sample={"previous": old_src, "observed": new_src, "rewritten": arg})
    for key, hname in keys_old:
        if isinstance(old, dict):
            k = eval(key)
            same = k in new and old[k] == new[k]
        else:
            same = getattr(old, key) == getattr(new, key)
        if same and got.get(key) != hname:
            # a keyword whose value equals the default may be dropped by `update` - but update is not approved here
            return False
    return world.snapshot_values(r.text)[0] == new


GLB = {"never_compared_case": never_compared_case, "in_is_case": in_is_case, "unmanaged_case": unmanaged_case, "is_equal_case": is_equal_case, "survival_case": survival_case, "survival_keyed": survival_keyed, "__name__": "harness.c10"}

CASES = [
    # name, previous source, observed source, symbolic names, extra namespace, star
    ("is_list_mid", "[c0, Is(c1), c2]", "[n0, n1, n2]", ["c0", "c1", "c2", "n0", "n1", "n2"], None, False),
    ("is_list_short", "[c0, Is(c1)]", "[n0]", ["c0", "c1", "n0"], None, False),
    ("is_list_long", "[Is(c0), c1]", "[n0, n1, n2]", ["c0", "c1", "n0", "n1", "n2"], None, False),
    ("is_tuple", "(Is(c0), c1)", "(n0, n1)", ["c0", "c1", "n0", "n1"], None, False),
    ("is_dict_value", "{1: Is(c0), 2: c1}", "{1: n0, 2: n1}", ["c0", "c1", "n0", "n1"], None, False),
    ("is_dict_key_gone", "{1: Is(c0), 2: c1}", "{2: n1}", ["c0", "c1", "n1"], None, False),
    ("is_dict_key_added", "{1: Is(c0), 2: c1}", "{1: n0, 2: n1, 3: n2}", ["c0", "c1", "n0", "n1", "n2"], None, False),
    ("is_dataclass_kw", "P(a=c0, b=Is(c1))", "P(a=n0, b=n1, c=[n2])", ["c0", "c1", "n0", "n1", "n2"], None, False),
    ("is_nested_list", "[[c0, Is(c1)], c2]", "[[n0, n1], n2]", ["c0", "c1", "c2", "n0", "n1", "n2"], None, False),
    ("is_top", "Is(c0)", "n0", ["c0", "n0"], None, False),
    ("fstring_match", '[c0, f"{s0}"]', "[n0, 'abc']", ["c0", "n0"], {"s0": "abc"}, False),
    ("fstring_mismatch", '[c0, f"{s0}"]', "[n0, 'xyz']", ["c0", "n0"], {"s0": "abc"}, False),
    ("fstring_dict", '{1: f"{s0}!", 2: c0}', "{1: 'q', 2: n0}", ["c0", "n0"], {"s0": "abc"}, False),
    ("star_list", "[c0, *rest]", "[n0, n1]", ["c0", "c1", "n0", "n1"], "rest_list", True),
    ("star_tuple", "(c0, *rest)", "(n0, n1)", ["c0", "c1", "n0", "n1"], "rest_list", True),
    ("star_dict", "{1: c0, **rest}", "{1: n0, 2: n1}", ["c0", "c1", "n0", "n1"], "rest_dict", True),
    ("star_call_kw", "P(a=c0, **rest)", "P(a=n0, b=n1)", ["c0", "c1", "n0", "n1"], "rest_kw", True),
    ("star_call_pos", "P(*rest)", "P(a=n0, b=n1)", ["c0", "c1", "n0", "n1"], "rest_pos", True),
    ("star_list_two", "[c0, *rest]", "[n0, n1, n2]", ["c0", "c1", "n0", "n1", "n2"], "rest_list2", True),
    ("star_list_none", "[c0, *rest]", "[n0]", ["c0", "n0"], "rest_list0", True),
    ("star_dict_two", "{**rest, 3: c0}", "{1: n0, 2: n1, 3: n2}", ["c0", "c1", "n0", "n1", "n2"], "rest_dict2", True),
    ("star_dict_none", "{**rest, 3: c0}", "{3: n0}", ["c0", "n0"], "rest_dict0", True),
    ("star_call_kw_none", "P(a=c0, **rest)", "P(a=n0, b=n1)", ["c0", "n0", "n1"], "rest_dict0", True),
    ("is_namedtuple_kw", "NT(a=c0, b=Is(c1))", "NT(a=n0, b=n1)", ["c0", "c1", "n0", "n1"], None, False),
    ("is_attrs_kw", "A(a=c0, b=Is(c1))", "A(a=n0, b=n1)", ["c0", "c1", "n0", "n1"], None, False),
    ("nested_snapshot_same", "[snapshot(c0), c1]", "[n0, n1]", ["c0", "c1", "n0", "n1"], None, False),
    ("nested_snapshot_longer", "[snapshot(c0), c1]", "[n0, n1, n2]", ["c0", "c1", "n0", "n1", "n2"], None, False),
    ("nested_snapshot_dict", "{1: snapshot(c0), 2: c1}", "{1: n0, 2: n1}", ["c0", "c1", "n0", "n1"], None, False),
    # the observed dict enumerates the shared keys in another order than the literal
    ("is_dict_reordered", "{1: c0, 2: Is(c1)}", "{2: n1, 1: n0}", ["c0", "c1", "n0", "n1"], None, False),
    ("is_dict_reordered3", "{1: Is(c0), 2: c1, 3: c2}", "{3: n2, 1: n0, 2: n1}", ["c0", "c1", "c2", "n0", "n1", "n2"], None, False),
    ("is_dict_reordered_gone", "{1: c0, 2: Is(c1), 3: c2}", "{3: n2, 2: n1}", ["c0", "c1", "c2", "n1", "n2"], None, False),
    ("fstring_dict_reordered", '{1: f"{s0}!", 2: c0}', "{2: n0, 1: 'q'}", ["c0", "n0"], {"s0": "abc"}, False),
    ("nested_snapshot_dict_reordered", "{1: snapshot(c0), 2: c1}", "{2: n1, 1: n0}", ["c0", "c1", "n0", "n1"], None, False),
    ("is_nested_dict_reordered", "[{1: c0, 2: Is(c1)}]", "[{2: n1, 1: n0}]", ["c0", "c1", "n0", "n1"], None, False),
]


def conditions(tier):
    q = tier == "quick"
    conds = []
    subsets = [{"fix"}, {"create", "fix", "trim", "update"}] if q else [{"fix"}, {"create", "fix"}, {"fix", "update"}, {"create", "fix", "trim", "update"}, {"update"}, set()]
    for name, o, n, names, extra, star in CASES:
        for sub in subsets:
            if extra == "rest_list":
                ex = "{'rest': [c1]}"
            elif extra == "rest_dict":
                ex = "{'rest': {2: c1}}"
            elif extra == "rest_kw":
                ex = "{'rest': {'b': c1}}"
            elif extra == "rest_list2":
                ex = "{'rest': [c1, c1]}"
            elif extra == "rest_list0":
                ex = "{'rest': []}"
            elif extra == "rest_dict2":
                ex = "{'rest': {1: c1, 2: c1}}"
            elif extra == "rest_dict0":
                ex = "{'rest': {}}"
            elif extra == "rest_pos":
                ex = "{'rest': [c0, c1]}"
            else:
                ex = repr(extra)
            body = f"return unmanaged_case({o!r}, {n!r}, {{{', '.join(f'{x!r}: {x}' for x in names)}}}, {sub!r}, {ex}, {star})"
            cname = f"unm_{name}_{''.join(sorted(c[0] for c in sub)) or 'none'}"
            conds.append(Cond(cname, mkfn(cname, [(x, "int") for x in names], body, GLB), timeout=900, group="unmanaged",
                              bounds=f"previous `{o}`, observed `{n}` (all int leaves symbolic), approved {sorted(sub)}"))
    for name, o, names, ex in NEVER_COMPARED:
        for sub in ({"update"}, {"create", "fix", "trim", "update"}):
            cname = f"never_compared_{name}_{''.join(sorted(c[0] for c in sub))}"
            body = f"return never_compared_case({o!r}, {{{', '.join(f'{x!r}: {x}' for x in names)}}}, {ex}, {sub!r})"
            conds.append(Cond(cname, mkfn(cname, [(x, "int") for x in names] or [("dummy", "int")], body, GLB), timeout=600, group="never-compared",
                              bounds=f"module-level `snapshot({o})` that no test compares (h0 hand-written int, rest/s0 user data), approved {sorted(sub)}"))
    for name, o, n, names in [("list", "[c0, Is(c1), c2]", "[n0, n1, n2]", ["c0", "c1", "c2", "n0", "n1", "n2"]), ("dc", "P(a=c0, b=Is(c1))", "P(a=n0, b=n1)", ["c0", "c1", "n0", "n1"])]:
        body = f"return is_equal_case({o!r}, {n!r}, {{{', '.join(f'{x!r}: {x}' for x in names)}}})"
        conds.append(Cond(f"unm_equal_{name}", mkfn(f"unm_equal_{name}", [(x, "int") for x in names], body, GLB), timeout=600, group="unmanaged", bounds=f"`{o}` vs `{n}`: nothing is rewritten when everything matches"))
    for sub in ({"update"}, {"fix", "update"}, {"create", "fix", "trim", "update"}, {"trim"}):
        cname = f"unm_in_is_{''.join(sorted(c[0] for c in sub))}"
        conds.append(Cond(cname, mkfn(cname, [(x, "int") for x in ["c0", "h1", "x0"]], f"return in_is_case({{'c0': c0, 'h1': h1, 'x0': x0}}, {sub!r})", GLB), timeout=600, group="unmanaged",
                          bounds=f"`x0 in snapshot([Is(c0), h1])`, approved {sorted(sub)}"))
    tw = mkfn("unm_twin", [(x, "int") for x in ["c0", "c1", "c2", "n0", "n1", "n2"]], "return unmanaged_case('[c0, Is(c1), c2]', '[n0, n1, n2]', {'c0': c0, 'c1': c1, 'c2': c2, 'n0': n0, 'n1': n1, 'n2': n2}, {'fix'})", GLB, post="not _")
    conds.append(Cond("unm_twin", tw, timeout=60, twin=True))
    return conds


def conditions_c11b(tier):
    q = tier == "quick"
    conds = []
    N = 3 if q else 4
    for kind in ("list", "tuple"):
        for no in range(1, N + 1):
            for nn in range(1, N + 1):
                if kind == "tuple" and (no > 2 or nn > 2) and q:
                    continue
                params = [(f"o{i}", "int") for i in range(no)] + [(f"n{i}", "int") for i in range(nn)]
                body = f"return survival_case({kind!r}, {no}, {nn}, [{', '.join(f'o{i}' for i in range(no))}], [{', '.join(f'n{i}' for i in range(nn))}])"
                name = f"survive_{kind}{no}_{nn}"
                conds.append(Cond(name, mkfn(name, params, body, GLB), timeout=900, group="survival",
                                  bounds=f"previous {kind} of {no} hand-written elements, observed {nn} symbolic ints, fix only: equal common prefix/suffix keep their text"))
    for no, nn, w in [(3, 2, (0,)), (2, 3, (1,)), (3, 3, (0, 2)), (2, 1, (0,)), (1, 2, (0,))]:
        params = [(f"o{i}", "int") for i in range(no)] + [(f"n{i}", "int") for i in range(nn)]
        body = f"return survival_case('list', {no}, {nn}, [{', '.join(f'o{i}' for i in range(no))}], [{', '.join(f'n{i}' for i in range(nn))}], {w!r})"
        name = f"survive_is_list{no}_{nn}_w{''.join(map(str, w))}"
        conds.append(Cond(name, mkfn(name, params, body, GLB), timeout=900, group="survival",
                          bounds=f"previous list of {no} hand-written elements, elements {list(w)} wrapped in Is(...), observed {nn} symbolic ints, fix only"))
    keyed = [
        ("dict2", "{1: h0, 2: h1}", "{1: n0, 2: n1}", [("1", "h0"), ("2", "h1")], ["h0", "h1", "n0", "n1"]),
        ("dict2_reordered", "{1: h0, 2: h1}", "{2: n1, 1: n0}", [("1", "h0"), ("2", "h1")], ["h0", "h1", "n0", "n1"]),
        ("dict3_del_add", "{1: h0, 2: h1, 3: h2}", "{1: n0, 3: n1, 4: n2}", [("1", "h0"), ("3", "h2")], ["h0", "h1", "h2", "n0", "n1", "n2"]),
        ("dc_kw", "P(a=h0, b=h1)", "P(a=n0, b=n1)", [("a", "h0"), ("b", "h1")], ["h0", "h1", "n0", "n1"]),
        ("dc_kw_add", "P(a=h0)", "P(a=n0, b=n1, c=[n2])", [("a", "h0")], ["h0", "n0", "n1", "n2"]),
        ("attrs_kw", "A(a=h0, b=h1)", "A(a=n0, b=n1)", [("a", "h0"), ("b", "h1")], ["h0", "h1", "n0", "n1"]),
    ]
    for name, o, n, keys, names in keyed:
        pre = []
        if name.startswith("dc_kw") or name.startswith("attrs"):
            # a keyword equal to the class default is an `update` deletion, which is not approved: it must stay
            pass
        body = f"return survival_keyed({o!r}, {n!r}, {keys!r}, {{{', '.join(f'{x!r}: {x}' for x in names)}}})"
        cname = f"survive_{name}"
        conds.append(Cond(cname, mkfn(cname, [(x, "int") for x in names], body, GLB, pre=pre), timeout=900, group="survival-keyed",
                          bounds=f"previous `{o}` (hand-written values), observed `{n}`, fix only: equal entries under surviving keys keep their text"))
    return conds


META = {
    "bounds": {"quick": f"{len(CASES)} shapes with Is() / f-string / star-expression / nested snapshot() in list, tuple, dict value, dataclass keyword and top level; 2 approved subsets; all int leaves symbolic",
               "thorough": "6 approved subsets"},
    "outside": "dirty-equals expressions (package not installed in this environment; they take the same is_unmanaged route as Is()); f-strings with symbolic content (string formatting of symbolic ints is not encoded: f-string contents are concrete)",
    "assumptions": ["stub: repr of a symbolic int leaf is a name token; user-controlled segments are recognised textually (Is(...), f\"...\", snapshot(...) without nested parentheses)"],
}

world.prewarm(lambda: unmanaged_case("[c0, Is(c1), c2]", "[n0, n1, n2]", {"c0": 1, "c1": 2, "c2": 3, "n0": 1, "n1": 5, "n2": 4}, {"fix"}),
              lambda: survival_case("list", 3, 2, [1, 2, 3], [1, 3]), lambda: survival_keyed("P(a=h0, b=h1)", "P(a=n0, b=n1)", [("a", "h0"), ("b", "h1")], {"h0": 1, "h1": 2, "n0": 1, "n1": 3}))
