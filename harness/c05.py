"""C05 - each category means what the documentation says (docs/categories.md).

D-core; one call site per operation evaluated m times; test bodies *record* comparison results instead of asserting
so that every run observes the same comparisons.  The oracle is an independent model of the documented category
algebra; all values are symbolic, the approved subset is enumerated (16 subsets = 16 conditions per shape).
"""
from __future__ import annotations

import ast
import itertools

from harness.support import SUPPORT_NS
from vlib import world
from vlib.common import Cond, PathLog, mkfn
from vlib.world import MISSING, W

ID = "C05"
world.install_shims()
HEAD = "from inline_snapshot import snapshot\n\n"
CATS = ("create", "fix", "trim", "update")


def subset_name(sub):
    return "".join(c[0] for c in CATS if c in sub) or "none"


# ------------------------------------------------------------------ the documented model


def model_minmax(op, old, xs, approved):
    """op '<=': x <= snapshot (upper bound, MaxValue); op '>=': x >= snapshot (lower bound)."""
    ext = xs[0]
    for x in xs[1:]:
        if op == "<=":
            if x > ext:
                ext = x
        else:
            if x < ext:
                ext = x
    if old is MISSING:
        return {"create"}, (ext if "create" in approved else MISSING)
    holds = all((x <= old) if op == "<=" else (x >= old) for x in xs)
    if not holds:
        return {"fix"}, (ext if "fix" in approved else old)
    if ext == old:
        return set(), old
    return {"trim"}, (ext if "trim" in approved else old)


def model_in(old, xs, approved):
    distinct = []
    for x in xs:
        if x not in distinct:
            distinct.append(x)
    if old is MISSING:
        return {"create"}, (distinct if "create" in approved else MISSING)
    cats = set()
    value = []
    for e in old:
        if e in distinct:
            value.append(e)
        else:
            cats.add("trim")
            if "trim" not in approved:
                value.append(e)
    for x in distinct:
        if x not in old:
            cats.add("fix")
            if "fix" in approved:
                value.append(x)
    return cats, value


def model_eq(old, x, approved):
    if old is MISSING:
        return {"create"}, (x if "create" in approved else MISSING)
    if old == x:
        return set(), old
    return {"fix"}, (x if "fix" in approved else old)


def model_getitem(old, accesses, approved):
    """accesses: [(key, value, compared?)] - s[key] evaluated, and (if compared) s[key] == value"""
    first = {}
    accessed = []
    for k, x, compared in accesses:
        if k not in accessed:
            accessed.append(k)
        if compared and k not in first:
            first[k] = x
    if old is MISSING:
        return {"create"}, (dict(first) if "create" in approved else MISSING)
    cats = set()
    value = {}
    for k, v in old.items():
        if k not in accessed:
            cats.add("trim")  # only keys that were never accessed are slack
            if "trim" not in approved:
                value[k] = v
        elif k not in first or v == first[k]:
            value[k] = v
        else:
            cats.add("fix")
            value[k] = first[k] if "fix" in approved else v
    for k, x in first.items():
        if k not in old:
            cats.add("create")
            if "create" in approved:
                value[k] = x
    return cats, value


def same_members(a, b):
    if len(a) != len(b):
        return False
    for x in a:
        if x not in b:
            return False
    for x in b:
        if x not in a:
            return False
    return True


# ------------------------------------------------------------------ harness bodies


def run_site(op, old_src, xs, approved, keys=None, compared=None):
    """returns (categories without update, update pending?, value read back from the rewritten text, text)"""
    ns = dict(SUPPORT_NS)
    ns.update(W.ns)
    ns["xs"] = xs
    ns["res"] = []
    if keys is not None:
        ns["ks"] = keys
        ns["cs"] = list(compared) if compared is not None else [True] * len(keys)
    world.reset(ns)
    arg = old_src or ""
    if op in ("<=", ">="):
        body = f"    for x in xs:\n        res.append(x {op} snapshot({arg}))\n"
    elif op == "==":
        body = f"    for x in xs:\n        res.append(x == snapshot({arg}))\n"
    elif op == "in":
        body = f"    for x in xs:\n        res.append(x in snapshot({arg}))\n"
    elif op == "[]":
        body = f"    s = snapshot({arg})\n    for k, x, compared in zip(ks, xs, cs):\n        child = s[k]\n        if compared:\n            res.append(child == x)\n"
    t = HEAD + "def test_a():\n" + body
    r = world.core_session(t, approved)
    ast.parse(r.text)
    vals = world.snapshot_values(r.text)
    return r, vals[0]


def check_minmax(op, has_old, c0, xs, approved):
    W.ns = {"c0": c0}
    r, v = run_site(op, "c0" if has_old else None, xs, approved)
    cats, want = model_minmax(op, c0 if has_old else MISSING, xs, approved)
    PathLog.record(f"{op}{has_old}{sorted(approved)}{sorted(r.categories)}{r.text}", nontrivial=bool(r.categories),
                   sample={"op": "x %s snapshot" % op, "observations": len(xs), "approved": sorted(approved), "reported": sorted(r.categories), "rewritten": world.snapshot_arg_sources(r.text)})
    if r.categories != cats:
        return False
    if want is MISSING:
        return v is MISSING
    if v is MISSING:
        return False
    return v == want


def check_in(n_old, olds, xs, approved):
    W.ns = {f"c{i}": o for i, o in enumerate(olds)}
    has_old = n_old >= 0
    old_src = "[" + ", ".join(f"c{i}" for i in range(n_old)) + "]" if has_old else None
    r, v = run_site("in", old_src, xs, approved)
    cats, want = model_in(list(olds) if has_old else MISSING, xs, approved)
    PathLog.record(f"in{n_old}{sorted(approved)}{sorted(r.categories)}{r.text}", nontrivial=bool(r.categories),
                   sample={"op": "x in snapshot", "old": old_src, "observations": len(xs), "approved": sorted(approved), "reported": sorted(r.categories), "rewritten": world.snapshot_arg_sources(r.text)})
    if r.categories != cats:
        return False
    if want is MISSING:
        return v is MISSING
    if v is MISSING:
        return False
    return same_members(v, want)


def check_eq(has_old, hand, c0, x0, approved):
    name = "h0" if hand else "c0"
    W.ns = {name: c0}
    r, v = run_site("==", name if has_old else None, [x0], approved)
    cats, want = model_eq(c0 if has_old else MISSING, x0, approved)
    got = set(r.categories)
    PathLog.record(f"eq{has_old}{hand}{sorted(approved)}{sorted(got)}{r.text}", nontrivial=bool(got),
                   sample={"op": "x == snapshot", "approved": sorted(approved), "reported": sorted(got), "rewritten": world.snapshot_arg_sources(r.text)})
    if hand and has_old:
        # a hand-written argument whose value is right: exactly an update is pending, and applying it keeps the value
        if c0 == x0:
            if got != {"update"}:
                return False
            return v == c0
    if got != cats:
        return False
    if want is MISSING:
        return v is MISSING
    if v is MISSING:
        return False
    return v == want


def check_eq_twice(c0, x0, x1, approved):
    """one == snapshot(c0) evaluated with x0 then x1: fix is reported exactly when some comparison against the current
    value fails (the value itself is only defined when the test does not contradict itself)"""
    W.ns = {"c0": c0}
    r, v = run_site("==", "c0", [x0, x1], approved)
    got = set(r.categories)
    PathLog.record(f"eq2{sorted(approved)}{sorted(got)}{r.text}", nontrivial=bool(got), sample={"op": "x == snapshot (two observations)", "approved": sorted(approved), "reported": sorted(got)})
    wrong = (not (x0 == c0)) or (not (x1 == c0))
    if not (x0 == c0):
        # the first comparison against the value in the source fails: a fix is pending
        if "fix" not in got:
            return False
    elif not wrong:
        if got:
            return False
    # (first observation equal, a later one different: the test contradicts itself - one == snapshot compared with
    #  different values - no category can repair it; exempt, as in C02)
    if x0 == x1 and v is not MISSING:
        want = x0 if ("fix" in approved and wrong) else c0
        return v == want
    return True


def check_getitem(old_keys, olds, keys, xs, approved, compared=None):
    W.ns = {f"c{i}": o for i, o in enumerate(olds)}
    has_old = old_keys is not None
    old_src = "{" + ", ".join(f"{k}: c{i}" for i, k in enumerate(old_keys)) + "}" if has_old else None
    compared = list(compared) if compared is not None else [True] * len(keys)
    r, v = run_site("[]", old_src, xs, approved, keys=list(keys), compared=compared)
    old = {k: o for k, o in zip(old_keys, olds)} if has_old else MISSING
    cats, want = model_getitem(old, list(zip(keys, xs, compared)), approved)
    PathLog.record(f"gi{old_keys}{keys}{sorted(approved)}{sorted(r.categories)}{r.text}", nontrivial=bool(r.categories),
                   sample={"op": "snapshot[key] == x", "old": old_src, "accessed": list(keys), "approved": sorted(approved), "reported": sorted(r.categories), "rewritten": world.snapshot_arg_sources(r.text)})
    if r.categories != cats:
        return False
    if want is MISSING:
        return v is MISSING
    if v is MISSING:
        return False
    return v == want


def check_update_value(old_src, new_src, leafvals, approved):
    """An update never changes the value the argument evaluates to (approved = {update} [+ others])."""
    ns = dict(SUPPORT_NS)
    ns.update(leafvals)
    world.reset(ns)
    new = eval(new_src, dict(ns))
    W.ns["new"] = new
    before = eval(old_src, dict(W.ns))
    t = HEAD + f"def test_a():\n    res = new == snapshot({old_src})\n"
    r = world.core_session(t, {"update"}, update_flags=approved)
    v = world.snapshot_values(r.text)[0]
    PathLog.record(f"upd{old_src}{r.text}", nontrivial=r.changed,
                   sample={"previous": old_src, "observed": new_src, "applied": ["update"], "rewritten": world.snapshot_arg_sources(r.text)})
    for c in r.changes:
        if c.flag == "update" and hasattr(c, "new_code"):
            if not (eval(c.new_code, world.eval_ns()) == c.old_value):
                return False
    return v == before


def check_never_compared(old_src, leafvals, approved):
    """a snapshot that is not used in this run (module level, test not selected): whatever is approved, the value
    the argument evaluates to does not change (only `update` can apply, and update never changes the value)"""
    ns = dict(SUPPORT_NS)
    ns.update(leafvals)
    world.reset(ns)
    before = eval(old_src, dict(W.ns))
    t = HEAD + f"s = snapshot({old_src})\n\n\ndef test_a():\n    pass\n"
    r = world.core_session(t, approved)
    v = world.snapshot_values(r.text)[0]
    PathLog.record(f"never{old_src}{sorted(approved)}{r.text}", nontrivial=r.changed, sample={"unused_snapshot": old_src, "approved": sorted(approved), "rewritten": world.snapshot_arg_sources(r.text)})
    if r.categories - {"update"}:
        return False
    return v == before


def check_eq_positional_call(c0, c1, x0, x1, approved):
    """a dataclass written with positional arguments: fix is reported exactly when the comparison fails"""
    W.ns = {"c0": c0, "c1": c1}
    ns = dict(SUPPORT_NS)
    new = ns["P"](a=x0, b=x1)
    r, v = run_site("==", "P(c0, c1)", [new], approved)
    got = set(r.categories)
    PathLog.record(f"eqpos{sorted(approved)}{sorted(got)}{r.text}", nontrivial=bool(got), sample={"op": "P(a=x0, b=x1) == snapshot(P(c0, c1))", "approved": sorted(approved), "reported": sorted(got), "rewritten": world.snapshot_arg_sources(r.text)})
    wrong = not (x0 == c0 and x1 == c1)
    if ("fix" in got) != wrong:
        return False
    if v is MISSING:
        return False
    return v == (new if ("fix" in approved and wrong) else ns["P"](c0, c1))


GLB = {k: v for k, v in globals().items() if k.startswith("check_")}
GLB["__name__"] = "harness.c05"


def conditions(tier):
    q = tier == "quick"
    conds = []
    subsets = [set(s) for k in range(5) for s in itertools.combinations(CATS, k)]
    M = 3 if q else 4
    for sub in subsets:
        sn = subset_name(sub)
        for op, opn in (("<=", "le"), (">=", "ge")):
            for has_old in (True, False):
                for m in range(1, M + 1):
                    if q and m == 3 and len(sub) not in (0, 1, 4) :
                        continue
                    params = [("c0", "int")] + [(f"x{i}", "int") for i in range(m)]
                    body = f"return check_minmax({op!r}, {has_old}, c0, [{', '.join(f'x{i}' for i in range(m))}], {sub!r})"
                    name = f"{opn}_{'old' if has_old else 'new'}_m{m}_{sn}"
                    conds.append(Cond(name, mkfn(name, params, body, GLB), timeout=600, group=f"minmax-{sn}",
                                      bounds=f"x {op} snapshot({'c0' if has_old else ''}) evaluated {m} times, approved={sorted(sub)}"))
        for n_old in (-1, 0, 1, 2) if q else (-1, 0, 1, 2, 3):
            for m in range(1, (2 if q else 3) + 1):
                if q and n_old == 2 and m == 2 and len(sub) not in (0, 1, 4):
                    continue
                k = max(n_old, 0)
                params = [(f"c{i}", "int") for i in range(k)] + [(f"x{i}", "int") for i in range(m)]
                body = f"return check_in({n_old}, [{', '.join(f'c{i}' for i in range(k))}], [{', '.join(f'x{i}' for i in range(m))}], {sub!r})"
                name = f"in_old{n_old if n_old >= 0 else 'x'}_m{m}_{sn}"
                conds.append(Cond(name, mkfn(name, params, body, GLB), timeout=600, group=f"in-{sn}",
                                  bounds=f"x in snapshot({'[' + ', '.join(f'c{i}' for i in range(k)) + ']' if n_old >= 0 else ''}) evaluated {m} times, approved={sorted(sub)}"))
        for has_old, hand in ((False, False), (True, False), (True, True)):
            name = f"eq_{'hand' if hand else ('old' if has_old else 'new')}_{sn}"
            body = f"return check_eq({has_old}, {hand}, c0, x0, {sub!r})"
            conds.append(Cond(name, mkfn(name, [("c0", "int"), ("x0", "int")], body, GLB), timeout=600, group=f"eq-{sn}",
                              bounds=f"x == snapshot({'h0 (hand-written)' if hand else ('c0' if has_old else '')}), approved={sorted(sub)}"))
        name = f"eq_twice_{sn}"
        conds.append(Cond(name, mkfn(name, [("c0", "int"), ("x0", "int"), ("x1", "int")], f"return check_eq_twice(c0, x0, x1, {sub!r})", GLB), timeout=600, group=f"eq-{sn}",
                          bounds=f"x == snapshot(c0) evaluated with two symbolic values (equal or not), approved={sorted(sub)}: fix reported iff some comparison fails"))
        gi = [(None, (1,), None), (None, (1, 2), None), ((1,), (1,), None), ((1,), (2,), None), ((1, 2), (2,), None), ((1, 2), (1, 3), None), ((1, 2), (2, 2), None),
              # keys that are accessed (s[key] evaluated) but not compared in this run
              ((1, 2, 3), (1, 2), (True, False)), ((1, 2), (2, 3), (False, True)), ((1,), (1, 2), (False, False)), (None, (1, 2), (True, False))]
        if not q:
            gi += [((1, 2), (3, 1, 2), None), ((1, 2, 3), (2, 4), None), ((), (1,), None), ((1,), (1, 1, 2), None), ((1, 2), (1, 1), (False, True)), ((1, 2, 3), (3, 2, 1), (True, False, True))]
        for old_keys, keys, compared in gi:
            k = len(old_keys or ())
            params = [(f"c{i}", "int") for i in range(k)] + [(f"x{i}", "int") for i in range(len(keys))]
            body = f"return check_getitem({old_keys!r}, [{', '.join(f'c{i}' for i in range(k))}], {keys!r}, [{', '.join(f'x{i}' for i in range(len(keys)))}], {sub!r}, {compared!r})"
            name = f"gi_{''.join(map(str, old_keys)) if old_keys is not None else 'x'}_{''.join(map(str, keys))}{'_' + ''.join('c' if c else 'a' for c in compared) if compared else ''}_{sn}"
            conds.append(Cond(name, mkfn(name, params, body, GLB), timeout=600, group=f"getitem-{sn}",
                              bounds=f"s = snapshot({dict.fromkeys(old_keys, '..') if old_keys is not None else ''}); s[k] evaluated for k in {keys}{' and compared where ' + str(compared) if compared else ' and compared'}, approved={sorted(sub)}"))
    # update never changes the value
    upd = [
        ("[h0, h1]", "[n0, n1]", ["h0", "h1", "n0", "n1"]),
        ("[h0, c1]", "[n0, n1, n2]", ["h0", "c1", "n0", "n1", "n2"]),
        ("{1: h0, 2: c1}", "{1: n0, 3: n1}", ["h0", "c1", "n0", "n1"]),
        ("P(a=h0, b=c1)", "P(a=n0, b=n1)", ["h0", "c1", "n0", "n1"]),
        ("P(a=c0, b=5)", "P(a=n0, b=n1)", ["c0", "n0", "n1"]),
        ("P(a=c0, b=5, c=[])", "P(a=n0)", ["c0", "n0"]),
        ("(h0,)", "(n0,)", ["h0", "n0"]),
        ("h0", "n0", ["h0", "n0"]),
    ]
    for i, (o, n, names) in enumerate(upd):
        for sub in ({"update"}, {"update", "fix"}, set(CATS)):
            body = f"return check_update_value({o!r}, {n!r}, {{{', '.join(f'{x!r}: {x}' for x in names)}}}, {sub!r})"
            name = f"upd{i}_{subset_name(sub)}"
            conds.append(Cond(name, mkfn(name, [(x, "int") for x in names], body, GLB), timeout=600, group="update-value",
                              bounds=f"previous `{o}` (h = hand-written), observed `{n}`, only the update changes applied, session flags {sorted(sub)}"))
    for i, (o, names) in enumerate([("[h0, c1]", ["h0", "c1"]), ("{1: [h0, c1], 2: c2}", ["h0", "c1", "c2"]), ("P(a=h0, b=5)", ["h0"]), ("(h0,)", ["h0"]), ("[[h0], (c1, h2)]", ["h0", "c1", "h2"]), ("h0", ["h0"])]):
        for sub in ({"update"}, set(CATS), {"fix", "trim"}):
            body = f"return check_never_compared({o!r}, {{{', '.join(f'{x!r}: {x}' for x in names)}}}, {sub!r})"
            name = f"never_compared{i}_{subset_name(sub)}"
            conds.append(Cond(name, mkfn(name, [(x, "int") for x in names], body, GLB), timeout=600, group="update-value",
                              bounds=f"module-level snapshot `{o}` (h = hand-written) that no test uses in this run, approved {sorted(sub)}"))
    tw = mkfn("le_old_m2_twin", [("c0", "int"), ("x0", "int"), ("x1", "int")], "return check_minmax('<=', True, c0, [x0, x1], {'fix'})", GLB, post="not _")
    conds.append(Cond("le_old_m2_twin", tw, timeout=60, twin=True))
    tw = mkfn("gi_twin", [("c0", "int"), ("x0", "int")], "return check_getitem((1,), [c0], (1,), [x0], {'fix'})", GLB, post="not _")
    conds.append(Cond("gi_twin", tw, timeout=60, twin=True))
    import os

    if "C05-positional-dataclass-arguments" not in os.environ.get("VERIF_KF_ACTIVE", "").split(","):
        # (open known finding: region = a dataclass snapshot written with positional arguments; witness replayed by the runner)
        for sub in ({"fix"}, set(), set(CATS)):
            name = f"eq_positional_call_{subset_name(sub)}"
            body = f"return check_eq_positional_call(c0, c1, x0, x1, {sub!r})"
            conds.append(Cond(name, mkfn(name, [(n, "int") for n in ("c0", "c1", "x0", "x1")], body, GLB), timeout=600, group="eq-positional",
                              bounds=f"`P(a=x0, b=x1) == snapshot(P(c0, c1))` (dataclass written with positional arguments), approved {sorted(sub)}"))
    return conds


META = {
    "bounds": {"quick": "per call site: <=3 evaluations of <=/>=, <=2 of `in` with previous list of <=2, 11 key-access patterns for snapshot[key] (incl. keys that are accessed but not compared), snapshots that no test uses in the run, == with canonical/hand-written/missing argument; all 16 approved subsets; all values symbolic ints",
               "thorough": "<=4 evaluations of <=/>=, <=3 of `in` with previous list of <=3, 11 key-access patterns"},
    "outside": "more evaluations per site, values that are not totally ordered ints, nested sub-snapshots deeper than one level",
    "assumptions": [
        "stub: repr of a symbolic int leaf is a name token - validated by concrete replays with real repr",
        "oracle = independent model of docs/categories.md (model_minmax/model_in/model_eq/model_getitem)",
        "update_flags of the session = approved subset (what pytest_configure derives from plain category flags)",
    ],
}

world.prewarm(
    lambda: check_minmax("<=", True, 3, [1, 5], {"fix"}),
    lambda: check_in(2, [1, 2], [2, 3], {"fix", "trim"}),
    lambda: check_getitem((1, 2), [1, 2], (1, 3), [1, 5], {"create"}),
    lambda: check_eq(True, True, 1, 1, {"update"}),
)
