"""C09 - the order in which categories are approved does not matter.

Multi-session driver on materialised text: k single-category sessions in a given order vs. one session approving them
together, on templates whose pending changes share AST nodes.  Oracle: the final programs have identical syntax trees
(ast.dump of the snapshot arguments) and equal values - decided by the solver for all symbolic observations.
Test bodies record comparison results instead of aborting (scope decision, DESIGN.md C09).
"""
from __future__ import annotations

import ast
import itertools

from harness.support import SUPPORT_NS
from vlib import world
from vlib.common import Cond, PathLog, mkfn
from vlib.world import W

ID = "C09"
world.install_shims()
HEAD = "from inline_snapshot import snapshot\n\n"
CATS = ("create", "fix", "trim", "update")

TEMPLATES = {
    "in_list": ("    for x in new:\n        res.append(x in snapshot([c0, c1, h2]))\n", ["c0", "c1", "h2", "n0", "n1"], "[n0, n1]"),
    "sub_snapshots": ("    s = snapshot({1: c0, 2: h1, 3: c2})\n    res.append(s[2] == new[0])\n    res.append(s[4] == new[1])\n", ["c0", "h1", "c2", "n0", "n1"], "[n0, n1]"),
    "list_hand": ("    res.append(new == snapshot([h0, c1, c2]))\n", ["h0", "c1", "c2", "n0", "n1"], "[n0, n1]"),
    "bound_hand": ("    for x in new:\n        res.append(x <= snapshot(h0))\n", ["h0", "n0", "n1"], "[n0, n1]"),
    "dataclass": ("    res.append(new == snapshot(P(a=h0, b=5, c=[c1])))\n", ["h0", "c1", "n0", "n1"], "P(a=n0, c=[n1])"),
    "dataclass_insert_delete": ("    res.append(new == snapshot(R(a=h0, b=0, c=c1)))\n", ["h0", "c1", "n0", "n1", "n2"], "R(a=n0, c=n1, d=n2)"),
    "dataclass_insert_middle": ("    res.append(new == snapshot(R(a=c0, b=0, d=c1)))\n", ["c0", "c1", "n0", "n1", "n2"], "R(a=n0, c=n1, d=n2)"),
    "nested_inner_list": ("    res.append(new == snapshot([snapshot(c0), snapshot(h1)]))\n", ["c0", "h1", "n0", "n1"], "[n0, n1]"),
    "nested_inner_tuple": ("    res.append(new == snapshot((snapshot(h0), snapshot(c1), c2)))\n", ["h0", "c1", "c2", "n0", "n1", "n2"], "(n0, n1, n2)"),
    "three_sites": ("    res.append(new[0] == snapshot())\n    res.append(new[1] <= snapshot(c0))\n    res.append(new[0] in snapshot([c1, h2]))\n", ["c0", "c1", "h2", "n0", "n1"], "[n0, n1]"),
    "dict_eq": ("    res.append(new == snapshot({1: h0, 2: c1}))\n", ["h0", "c1", "n0", "n1"], "{1: n0, 3: n1}"),
    "nested_sub": ("    s = snapshot({1: {2: h0, 3: c1}})\n    res.append(s[1][2] == new[0])\n    res.append(s[5] == new[1])\n", ["h0", "c1", "n0", "n1"], "[n0, n1]"),
}


def run_sessions(text, sequence):
    """sequence: list of approved sets, one session each"""
    for approved in sequence:
        W.ns["res"] = []
        r = world.core_session(text, approved, extra_globals=dict(W.ph))
        if r.outcomes.get("test_a") != "passed":
            return None
        text = r.text
    return text


def order_case(tname, order, vals):
    body, names, new_src = TEMPLATES[tname]
    ns = dict(SUPPORT_NS)
    ns.update(vals)
    world.reset(ns)
    W.ns["new"] = eval(new_src, dict(W.ns))
    t = HEAD + "def test_a():\n" + body
    together = run_sessions(t, [set(CATS)])
    one_by_one = run_sessions(t, [{c} for c in order])
    if together is None or one_by_one is None:
        return False
    with world.NoTracing():
        a = [ast.dump(ast.parse(s, mode="eval")) if s is not None else None for s in world.snapshot_arg_sources(str(together))]
        b = [ast.dump(ast.parse(s, mode="eval")) if s is not None else None for s in world.snapshot_arg_sources(str(one_by_one))]
    va = world.snapshot_values(together)
    vb = world.snapshot_values(one_by_one)
    PathLog.record(tname + str(order) + str(together) + "|" + str(one_by_one), nontrivial=str(together) != t,
                   sample={"template": tname, "order": list(order), "together": world.snapshot_arg_sources(together), "one_by_one": world.snapshot_arg_sources(one_by_one)})
    if a != b:
        return False
    for x, y in zip(va, vb):
        if (x is world.MISSING) != (y is world.MISSING):
            return False
        if x is not world.MISSING and not (x == y):
            return False
    return True


GLB = {"order_case": order_case, "__name__": "harness.c09"}


def conditions(tier):
    q = tier == "quick"
    conds = []
    orders = list(itertools.permutations(CATS))
    for tname, (body, names, new_src) in TEMPLATES.items():
        for oi, order in enumerate(orders):
            if q and (tname.startswith("dataclass_insert") or tname.startswith("nested_inner")) and oi % 4 != 1:
                continue  # 6 of the 24 orders in the quick tier for the two most expensive templates
            vd = "{" + ", ".join(f"{n!r}: {n}" for n in names) + "}"
            name = f"order_{tname}_{''.join(c[0] for c in order)}"
            conds.append(Cond(name, mkfn(name, [(n, "int") for n in names], f"return order_case({tname!r}, {order!r}, {vd})", GLB), timeout=1200, group="order-" + tname,
                              bounds=f"template `{tname}`: sessions approving {' -> '.join(order)} one at a time vs. all together; all ints symbolic"))
    tw = mkfn("order_twin", [(n, "int") for n in TEMPLATES["in_list"][1]], "return order_case('in_list', ('trim', 'fix', 'update', 'create'), {'c0': c0, 'c1': c1, 'h2': h2, 'n0': n0, 'n1': n1})", GLB, post="not _")
    conds.append(Cond("order_twin", tw, timeout=60, twin=True))
    return conds


META = {
    "bounds": {"quick": f"{len(TEMPLATES)} templates with pending changes of several categories on shared AST nodes x all 24 approval orders (4 single-category sessions each) vs. one combined session; all ints symbolic",
               "thorough": "same"},
    "outside": "tests that abort at the first failing assert (a trim-only run then observes fewer comparisons than fix+trim: documented behaviour of failing tests, not the confluence stated here); more than 4 sessions",
    "assumptions": ["stub: repr of a symbolic int leaf is a name token shared by both histories (equal values render to equal tokens)",
                    "test bodies record comparison results instead of asserting"],
}

world.prewarm(lambda: order_case("in_list", ("trim", "fix", "update", "create"), {"c0": 1, "c1": 2, "h2": 3, "n0": 3, "n1": 5}))
