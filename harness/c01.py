"""C01 - a created snapshot reads back as the value that was observed.

D-plugin driver (real pytest_configure / snapshot_check fixture / pytest_sessionfinish incl. import insertion) with
--inline-snapshot=create on templates with empty snapshot() calls in four placements x five operations.
Oracle: the rewritten module, executed with inline-snapshot inactive, passes - decided by the solver for all leaves.
"""
from __future__ import annotations

import ast
from collections import defaultdict

from harness.support import SUPPORT_NS
from vlib import world
from vlib.common import Cond, PathLog, mkfn
from vlib.world import W

ID = "C01"
world.install_plugin_shims()
HEAD = "from inline_snapshot import snapshot\n\n"


GROW = ("from inline_snapshot import snapshot\n\ndef test_a():\n    acc = []\n    for x in obs:\n        acc.append(x)\n        assert (x, acc) {op} snapshot()\n")


def template(op, placement, m):
    """m observations obs[0..m-1] (values live in the namespace)"""
    cmpx = {"==": "{x} == {s}", "<=": "{x} <= {s}", ">=": "{x} >= {s}", "in": "{x} in {s}"}
    if op == "[]":
        # keys 1..m, nested access for the last one when m >= 2
        if placement == "assert":
            lines = ["def test_a():", "    s = snapshot()"] + [f"    assert s[{i + 1}] == obs[{i}]" for i in range(m)]
        elif placement == "module":
            lines = ["s = snapshot()", "", "def test_a():"] + [f"    assert s[{i + 1}] == obs[{i}]" for i in range(m)]
        elif placement == "helper":
            lines = ["def check(s):"] + [f"    assert s[{i + 1}] == obs[{i}]" for i in range(m)] + ["", "def test_a():", "    check(snapshot())"]
        elif placement == "nested":
            lines = ["def test_a():", "    s = snapshot()"] + [f"    assert s[{i + 1}][7] == obs[{i}]" for i in range(m)]
        else:
            lines = ["def test_a():", "    s = snapshot()", "    for i, x in enumerate(obs):", "        assert s[i] == x"]
        return HEAD + "\n".join(lines) + "\n"
    c = cmpx[op]
    if placement == "assert":
        if op == "==":
            lines = ["def test_a():", "    assert " + c.format(x="obs[0]", s="snapshot()")]
        else:
            lines = ["def test_a():", "    s = snapshot()"] + ["    assert " + c.format(x=f"obs[{i}]", s="s") for i in range(m)]
    elif placement == "helper":
        lines = ["def check(v, s):", "    assert " + c.format(x="v", s="s"), "", "def test_a():", "    for x in obs:", "        check(x, snapshot())"]
    elif placement == "module":
        lines = ["s = snapshot()", "", "def test_a():", "    for x in obs:", "        assert " + c.format(x="x", s="s"), "", "def test_b():", "    assert " + c.format(x="obs[0]", s="s")]
    elif placement == "loop":
        lines = ["def test_a():", "    for x in obs:", "        assert " + c.format(x="x", s="snapshot()")]
    return HEAD + "\n".join(lines) + "\n"


def create_case(op, placement, obs_srcs, leafvals):
    ns = dict(SUPPORT_NS)
    ns["defaultdict"] = defaultdict
    ns.update(leafvals)
    world.reset(ns)
    obs = [eval(s, dict(W.ns)) for s in obs_srcs]
    if op == "==" and len(obs) > 1:
        obs = [obs[0]] * len(obs)  # one == snapshot must not be compared with different values (self-contradiction)
    W.ns["obs"] = obs
    t = template(op, placement, len(obs)) if placement != "grow" else GROW.format(op={"in": "in", "<=": "<=", "==": "=="}[op])
    r = world.plugin_session(t, cli="create")
    if r.finish_error is not None or r.usage_error is not None:
        return False
    new = world.text_after(r)
    with world.NoTracing():
        ast.parse(new)
        calls = world.snapshot_calls(new)
    PathLog.record(new, nontrivial=bool(r.written), sample={"operation": op, "placement": placement, "observed": obs_srcs, "rewritten_args": world.snapshot_arg_sources(new)})
    if any(not c.args for c in calls):
        return False  # every reached empty snapshot must have been filled
    return world.passes_when_disabled(new)


GLB = {"create_case": create_case, "__name__": "harness.c01"}

EQ_SHAPES_1 = {
    "int": ("n0", ["n0"]),
    "list2": ("[n0, n1]", ["n0", "n1"]),
    "list0": ("[]", []),
    "tuple0": ("()", []),
    "tuple1": ("(n0,)", ["n0"]),
    "tuple2": ("(n0, n1)", ["n0", "n1"]),
    "dict2": ("{1: n0, 2: n1}", ["n0", "n1"]),
    "dict0": ("{}", []),
    "dc_abc": ("P(a=n0, b=n1, c=[n2])", ["n0", "n1", "n2"]),
    "dc_a": ("P(a=n0)", ["n0"]),
    "attrs": ("A(a=n0, b=n1)", ["n0", "n1"]),
    "namedtuple": ("NT(a=n0, b=n1)", ["n0", "n1"]),
    "defaultdict": ("defaultdict(list, {1: [n0]})", ["n0"]),
    "consts": ("[n0, Color.red, Perm.r | Perm.x, P, None, True, 's', b'b', {2, 1}, frozenset({3}), 1.5, set(), frozenset()]", ["n0"]),
    "dc_init_false": ("[PI(n0), PI(a=n1)]", ["n0", "n1"]),
    "flag_zero": ("[n0, Perm(0), Perm(0) | Perm.x]", ["n0"]),
    "flag_zero_top": ("Perm(0)", []),
    "hasrepr": ("[n0, Weird(1)]", ["n0"]),
    "hasrepr_top": ("Weird(2)", []),
    "pydantic": ("Basket(owner=n0, n=n1, items=[n2])", ["n0", "n1", "n2"]),
    "pydantic_default": ("Basket(owner=n0, n=n1)", ["n0", "n1"]),
    "pydantic_mutated": ("basket_mut(n0, n1)", ["n0", "n1"]),
    "pydantic_nested": ("Basket(owner=n0, inner=basket_mut(n1, n2))", ["n0", "n1", "n2"]),
}
EQ_SHAPES_2 = {
    "ll": ("[[n0], (n1,)]", ["n0", "n1"]),
    "dd": ("{1: [n0, n1], 2: {3: n2}}", ["n0", "n1", "n2"]),
    "ldc": ("[P(a=n0, c=[n1])]", ["n0", "n1"]),
    "q": ("Q(p=P(a=n0, b=n1), n=n2)", ["n0", "n1", "n2"]),
    "dc_ll": ("P(a=n0, c=[[n1]])", ["n0", "n1"]),
    "tdc": ("(A(a=n0, b=n1), NT(a=n2))", ["n0", "n1", "n2"]),
    "dhas": ("{1: Weird(3), 2: [n0]}", ["n0"]),
    "dd_dc": ("defaultdict(list, {1: [P(a=n0)], 2: []})", ["n0"]),
}


def _cond(name, op, placement, obs_srcs, names, group, twin=False):
    body = f"return create_case({op!r}, {placement!r}, {obs_srcs!r}, {{{', '.join(f'{n!r}: {n}' for n in names)}}})"
    params = [(n, "int") for n in names] or [("dummy", "int")]
    fn = mkfn(name + ("_twin" if twin else ""), params, body, GLB, post="not _" if twin else "_")
    return Cond(name + ("_twin" if twin else ""), fn, timeout=60 if twin else 600, twin=twin, group=group,
                bounds=f"operation {op}, placement {placement}, observed values {obs_srcs} (n<k> symbolic ints)")


def conditions(tier):
    q = tier == "quick"
    conds = []
    shapes = dict(EQ_SHAPES_1)
    shapes.update(EQ_SHAPES_2)
    for sn, (src, names) in shapes.items():
        placements = ["assert", "helper", "module", "loop"]
        for pl in placements:
            m = 2 if pl in ("module", "loop", "helper") else 1
            conds.append(_cond(f"eq_{sn}_{pl}", "==", pl, [src] * m, names, "eq"))
    # bounds: m observations
    for op, opn in (("<=", "le"), (">=", "ge")):
        for pl in ("assert", "helper", "module", "loop"):
            for m in (1, 2, 3) if (not q or pl in ("assert", "loop")) else (2,):
                conds.append(_cond(f"{opn}_int_{pl}_m{m}", op, pl, [f"n{i}" for i in range(m)], [f"n{i}" for i in range(m)], "minmax"))
        conds.append(_cond(f"{opn}_tuple_assert_m2", op, "assert", ["(n0, n1)", "(n2, n3)"], ["n0", "n1", "n2", "n3"], "minmax"))
        conds.append(_cond(f"{opn}_list_loop_m2", op, "loop", ["[n0, n1]", "[n2]"], ["n0", "n1", "n2"], "minmax"))
    # membership
    for pl in ("assert", "helper", "module", "loop"):
        for m in (1, 2, 3) if (not q or pl in ("assert", "loop")) else (2,):
            conds.append(_cond(f"in_int_{pl}_m{m}", "in", pl, [f"n{i}" for i in range(m)], [f"n{i}" for i in range(m)], "in"))
    # the compared value is a tuple that holds a list which keeps growing after the comparison
    conds.append(_cond("in_tuple_growing_list", "in", "grow", ["n0", "n1"], ["n0", "n1"], "in"))
    conds.append(_cond("le_tuple_growing_list", "<=", "grow", ["n0", "n1"], ["n0", "n1"], "minmax"))
    conds.append(_cond("in_mixed_assert", "in", "assert", ["[n0]", "P(a=n1)", "Color.green", "Weird(4)"], ["n0", "n1"], "in"))
    conds.append(_cond("in_tuples_loop", "in", "loop", ["(n0, n1)", "(n2,)"], ["n0", "n1", "n2"], "in"))
    # sub-snapshots
    for pl in ("assert", "helper", "module", "loop", "nested"):
        for m in (1, 2) if (not q or pl == "assert") else (2,):
            conds.append(_cond(f"gi_int_{pl}_m{m}", "[]", pl, [f"n{i}" for i in range(m)], [f"n{i}" for i in range(m)], "getitem"))
    conds.append(_cond("gi_shapes_assert", "[]", "assert", ["[n0, n1]", "P(a=n2)", "Weird(5)"], ["n0", "n1", "n2"], "getitem"))
    # two values of one type in one session, only one of them with a repr that is Python code (symbolic which)
    for name, op, pl, srcs in (("in_loop", "in", "loop", ["Maybe(B0, 1)", "Maybe(B1, 2)"]), ("gi_assert", "[]", "assert", ["Maybe(B0, 1)", "Maybe(B1, 2)"]),
                               ("in_assert3", "in", "assert", ["Maybe(B0, 1)", "Maybe(B1, 2)", "[Maybe(B2, 3)]"]), ("eq_nested", "==", "assert", ["[Maybe(B0, 1), {1: Maybe(B1, 2)}, (Maybe(B2, 3),)]"])):
        body = f"return create_case({op!r}, {pl!r}, {srcs!r}, {{'B0': True if b0 else False, 'B1': True if b1 else False, 'B2': True if b2 else False}})"
        fn = mkfn(f"repr_validity_{name}", [("b0", "bool"), ("b1", "bool"), ("b2", "bool")], body, GLB)
        conds.append(Cond(f"repr_validity_{name}", fn, timeout=600, group="hasrepr",
                          bounds=f"operation {op}, placement {pl}, observed {srcs}: values of one type whose repr is Python code or not (symbolic per value)"))
    conds.append(_cond("eq_list2_assert", "==", "assert", ["[n0, n1]"], ["n0", "n1"], "eq", twin=True))
    conds.append(_cond("gi_int_nested_m2", "[]", "nested", ["n0", "n1"], ["n0", "n1"], "getitem", twin=True))
    return conds


META = {
    "bounds": {"quick": "4 families with values of one type whose repr is valid Python for some values only; 31 value shapes (incl. pydantic models with Any-typed fields, one filled in place; a tuple holding a list that keeps growing) up to depth 2 / width 3 (lists, tuples 0/1/2, dicts, dataclass with default and default_factory, attrs, namedtuple, defaultdict, Enum, Flag, class, None, bool, str, bytes, float, set, frozenset, HasRepr) with symbolic int leaves; 5 operations; placements assert / helper argument / module level / loop; <=3 observations",
               "thorough": "all shapes x all placements; <=3 observations everywhere"},
    "outside": "unbounded size/nesting; str/bytes leaves as symbolic values (C12); externals (C13); pydantic models only with Any-typed fields (typed fields are validated in C code, which realises symbolic ints); layouts other than the templates'",
    "assumptions": ["stub: repr of a symbolic int leaf is a name token; concrete replays use real repr",
                    "set/frozenset/str/bytes/float/Enum members inside the shapes are concrete constants (hashing a symbolic int realises it)",
                    "pytest's own runner is replaced by direct calls of the real hooks (pytest_configure, snapshot_check fixture generator, pytest_sessionfinish) with stub config/request/session objects"],
}

world.prewarm(
    lambda: create_case("==", "assert", ["[n0, Weird(1)]"], {"n0": 1}),
    lambda: create_case("[]", "nested", ["n0", "n1"], {"n0": 1, "n1": 2}),
    lambda: create_case("<=", "module", ["n0", "n1"], {"n0": 1, "n1": 2}),
)
