"""C03 - rewriting touches only the arguments of snapshot() calls.

(a) layout-symbolic kernel: the real generic_sequence_update / Change.replace / range_of / SourceRange / SourceFile._check
    on real asttokens Token objects whose (line, col) positions are symbolic ints constrained only by lexical order,
    for every delete mask and insert mask (symbolic bools) and parent kind.
(b) text level: the real fix/create/trim/update pipeline on adversarial layouts (harness.c03b conditions, same file).
"""
from __future__ import annotations

import ast
import pathlib

from asttokens.util import Token

from inline_snapshot._change import generic_sequence_update
from inline_snapshot._rewrite_code import ChangeRecorder, SourcePosition
from vlib import world
from vlib.common import Cond, PathLog, mkfn, scratch_dir
from vlib.world import W

ID = "C03"
world.install_shims()


def _scratch_file():
    with world.NoTracing():
        p = pathlib.Path(scratch_dir()) / "gsu_dummy.py"
        if not p.exists():
            p.write_text("x = 1\n")
        return p


class Src:
    filename = ""


class _LastLine:
    def __init__(self, n):
        self.n = n

    def __len__(self):
        return self.n


class _TokenText:
    """text of an abstract token that spans lines: only the length of its last line is known (= the end column).
    Contract of the environment: a token's text is consistent with its true end position."""

    def __init__(self, end_col):
        self.end_col = end_col

    def rsplit(self, sep, maxsplit):
        assert sep == "\n" and maxsplit == 1
        return ["", _LastLine(self.end_col)]


def tok(start, end, s="x"):
    if end[0] != start[0]:
        s = _TokenText(end[1])
    return Token(1, s, start, end, "", 0, 0, 0)


def lex_lt(a, b):
    return a[0] < b[0] or (a[0] == b[0] and a[1] < b[1])


def lex_le(a, b):
    return a[0] < b[0] or (a[0] == b[0] and a[1] <= b[1])


def gsu_case(kind, n, pos, dele, ins, trailing_comma, multi_tok):
    """pos: 2n+3 (line, col) pairs: open.start, open.end==.., then per element first.start,last.end, then close.start.
    dele[i]: element i deleted; ins[i]: something inserted before element i (ins[n]: at the end);
    multi_tok: elements consist of two tokens (first != last)."""
    Src.filename = str(_scratch_file())
    dele = [True if d else False for d in dele]  # fork here: masks are concrete on a path
    ins = [0 if x == 0 else (1 if x == 1 else 2) for x in ins]
    trailing_comma = True if trailing_comma else False
    o_s, o_e = pos[0], pos[1]
    elems = []
    for i in range(n):
        f, e = pos[2 + 2 * i], pos[3 + 2 * i]
        if multi_tok:
            first = tok(f, (f[0], f[1] + 1), "(")
            last = tok((e[0], e[1] - 1), e, ")")
        else:
            first = last = tok(f, e)
        elems.append((first, last))
    z_s = pos[2 + 2 * n]
    left = tok(o_s, o_e, "[")
    right = tok(z_s, (z_s[0], z_s[1] + 1), "]")
    parent = {"List": ast.List(elts=[], ctx=ast.Load()), "Tuple": ast.Tuple(elts=[], ctx=ast.Load()), "Dict": ast.Dict(keys=[], values=[]),
              "Call": ast.Call(func=ast.Name(id="f", ctx=ast.Load()), args=[], keywords=[])}[kind]
    def atom(name):
        return f"{name}: {name}v" if kind == "Dict" else name
    to_insert = {}
    for k in range(n + 1):
        if ins[k] == 1:
            to_insert[k] = [atom(f"N{k}")]
        elif ins[k] == 2:
            to_insert[k] = [atom(f"N{k}"), atom(f"M{k}")]
    rec = ChangeRecorder()
    generic_sequence_update(Src, parent, (left, right), [None if d else e for d, e in zip(dele, elems)], to_insert, rec)
    reps = sorted(rec.get_source(Src.filename).replacements)
    # --- obligation 1: every replacement is exactly a gap between tokens inside the braces, covering only deleted elements
    bounds_lo = [SourcePosition(*o_e)] + [SourcePosition(*e[1].end) for e in elems]
    for r in reps:
        if not (SourcePosition(*o_e) <= r.range.start and r.range.end <= SourcePosition(*z_s)):
            return False
        for d, (a, b) in zip(dele, elems):
            s = SourcePosition(*a.start)
            t = SourcePosition(*b.end)
            if not d:
                if r.range.start < t and s < r.range.end:
                    return False
    for r1, r2 in zip(reps, reps[1:]):
        if not (r1.range.end <= r2.range.start):
            return False
    # --- obligation 2: the text that results (elements as atoms, gaps as single commas) parses to the expected sequence
    # walk the layout: pieces in order
    pieces = []
    cur = SourcePosition(*o_e)
    gap_text = {}
    # gaps: after open brace (""), between elements (","), after last ("," if trailing_comma else "")
    segs = []  # (start, end, text) of original layout pieces
    prev_end = SourcePosition(*o_e)
    for i, (a, b) in enumerate(elems):
        segs.append((prev_end, SourcePosition(*a.start), "" if i == 0 else ","))
        segs.append((SourcePosition(*a.start), SourcePosition(*b.end), atom(f"E{i}")))
        prev_end = SourcePosition(*b.end)
    segs.append((prev_end, SourcePosition(*z_s), ("," if (trailing_comma and n > 0) else "")))
    out = ""
    emitted = []
    for s, e, text in segs:
        # a segment is either untouched, or fully covered by one replacement
        covered = None
        for r in reps:
            if r.range.start <= s and e <= r.range.end:
                covered = r
        emitted_here = ""
        if covered is not None and not any(covered is x for x in emitted):
            emitted.append(covered)
            emitted_here = covered.text
        if covered is None:
            # partially overlapping replacements are not allowed (zero-width segments can coincide with a boundary)
            for r in reps:
                if r.range.start < e and s < r.range.end:
                    return False
            out += text
        else:
            out += emitted_here
    if len(emitted) != len(reps):
        return False
    # replacements must start at a token boundary of the layout
    for r in reps:
        ok = False
        for s, e, text in segs:
            if r.range.start == s:
                ok = True
        if not ok:
            return False
    expected = []
    for k in range(n + 1):
        expected += to_insert.get(k, [])
        if k < n and not dele[k]:
            expected.append(atom(f"E{k}"))
    with world.NoTracing():
        out = str(out)
        try:
            if kind == "List":
                node = ast.parse("[" + out + "]", mode="eval").body
                got = [ast.unparse(e) for e in node.elts] if isinstance(node, ast.List) else None
            elif kind == "Tuple":
                node = ast.parse("(" + out + ")", mode="eval").body
                got = [ast.unparse(e) for e in node.elts] if isinstance(node, ast.Tuple) else None
            elif kind == "Dict":
                node = ast.parse("{" + out + "}", mode="eval").body
                got = [f"{ast.unparse(k)}: {ast.unparse(v)}" for k, v in zip(node.keys, node.values)] if isinstance(node, ast.Dict) else None
            else:
                node = ast.parse("f(" + out + ")", mode="eval").body
                got = [ast.unparse(e) for e in node.args]
        except SyntaxError:
            got = None
        ok = got == expected
        PathLog.record(f"{kind}{n}{[bool(d) for d in dele]}{list(ins)}{out}", nontrivial=bool(reps),
                       sample={"parent": kind, "elements": n, "deleted": [bool(d) for d in dele], "inserted_before": [int(i) for i in ins], "result": out, "expected": expected})
    return ok


GLB = {"gsu_case": gsu_case, "__name__": "harness.c03"}


def _gsu_cond(kind, n, multi_tok, twin=False, ins_max=1, multiline=True, fixed_deletes=None, fixed_i0=None):
    npos = 2 * n + 3
    params = []
    for i in range(npos):
        params += [(f"l{i}", "int"), (f"k{i}", "int")]
    params += [(f"d{i}", "bool") for i in range(n)] + [(f"i{i}", "int") for i in range(n + 1)] + [("tc", "bool")]
    P = [f"(l{i}, k{i})" for i in range(npos)]
    if multiline:
        pre = [" and ".join(f"1 <= l{i} <= 50 and 0 <= k{i} <= 200" for i in range(npos))]
    else:
        pre = [" and ".join(f"l{i} == 1 and 0 <= k{i} <= 200" for i in range(npos))]
    if kind in ("List", "Tuple") and n > 0:
        # callers' contract (SequenceAdapter via the aligner lemma checked in C11: no insertion immediately before a
        # deletion; CollectionValue inserts only at the end): no insertion at index k when element k is deleted
        pre.append(" and ".join(f"not (d{i} and i{i} != 0)" for i in range(n)))
    pre.append(" and ".join(f"0 <= i{i} <= {ins_max}" for i in range(n + 1)))
    order = ["lex_lt(" + P[0] + ", " + P[1] + ")"]
    # open.end <= first element start; element start < element end (+ room for two tokens); element end < next start; last end <= close.start
    for i in range(n):
        f, e = P[2 + 2 * i], P[3 + 2 * i]
        prev = P[1] if i == 0 else P[3 + 2 * (i - 1)]
        order.append((f"lex_le({prev}, {f})" if i == 0 else f"lex_lt({prev}, {f})"))
        if multi_tok:
            order.append(f"lex_lt((l{2 + 2 * i}, k{2 + 2 * i} + 1), (l{3 + 2 * i}, k{3 + 2 * i} - 1)) and k{3 + 2 * i} >= 1")
        else:
            order.append(f"lex_lt({f}, {e})")
    last = P[1] if n == 0 else P[3 + 2 * (n - 1)]
    order.append(f"lex_le({last}, {P[2 + 2 * n]})")
    pre.append(" and ".join(order))
    # a trailing comma needs room between the last element and the closing brace
    if n > 0:
        pre.append(f"(not tc) or lex_lt({last}, {P[2 + 2 * n]})")
    if fixed_deletes is not None:
        pre.append(" and ".join(f"d{i} == {bool(b)}" for i, b in enumerate(fixed_deletes)))
    if fixed_i0 is not None:
        pre.append(f"i0 == {fixed_i0}")
    body = f"return gsu_case({kind!r}, {n}, [{', '.join(P)}], [{', '.join(f'd{i}' for i in range(n))}], [{', '.join(f'i{i}' for i in range(n + 1))}], tc, {multi_tok})"
    name = f"gsu_{kind}_{n}{'_mt' if multi_tok else ''}{'_i2' if ins_max == 2 else ''}{'' if multiline else '_1line'}" + ("_d" + "".join(str(int(b)) for b in fixed_deletes) if fixed_deletes is not None else "") + (f"_i{fixed_i0}" if fixed_i0 is not None else "") + ("_twin" if twin else "")
    glb = dict(GLB)
    glb["lex_lt"] = lex_lt
    glb["lex_le"] = lex_le
    fn = mkfn(name, params, body, glb, pre=pre, post="not _" if twin else "_")
    return Cond(name, fn, timeout=60 if twin else (2400 if fixed_deletes is not None else 1200), twin=twin, group="gsu",
                bounds=f"{kind} with {n} elements, every {'(line, col) layout (1<=line<=50, 0<=col<=200, multi-line allowed)' if multiline else 'single-line layout (0<=col<=200)'}, every delete mask, <= {ins_max} insertion(s) at each of the {n + 1} positions, trailing comma or not, {'two-token' if multi_tok else 'one-token'} elements")


def conditions(tier):
    q = tier == "quick"
    conds = []
    for kind in ("List", "Tuple", "Dict", "Call"):
        for n in range(2 if q else 3):
            conds.append(_gsu_cond(kind, n, False))
        conds.append(_gsu_cond(kind, 3, False, multiline=False))
        conds.append(_gsu_cond(kind, 2, True, multiline=False))
        conds.append(_gsu_cond(kind, 2, False, ins_max=2, multiline=False))
        if not q:
            import itertools as _it

            for mask in _it.product((0, 1), repeat=3):  # multi-line layouts of 3 elements: one condition per delete mask x first insert bit
                for i0 in (0, 1):
                    if kind in ("List", "Tuple") and mask[0] and i0:
                        continue  # excluded by the callers' contract (no insertion at a deleted index)
                    conds.append(_gsu_cond(kind, 3, False, fixed_deletes=mask, fixed_i0=i0))
            conds.append(_gsu_cond(kind, 4, False, multiline=False))
            conds.append(_gsu_cond(kind, 2, True))
    conds.append(_gsu_cond("Tuple", 2, False, twin=True))
    from harness import c03b

    conds += c03b.conditions(tier)
    return conds


META = {
    "bounds": {"quick": "(a) token-range kernel: containers of <=3 elements on one line and <=1 element multi-line, all delete/insert masks, 4 parent kinds; (b) 8 layouts x observed lists of 1-2 ints x 3 approved subsets; (c) import insertion: 2-file sessions in 6 order/kind combinations and 4 file heads (docstring, __future__, comments, import block)", "thorough": "(a) multi-line up to 3 elements (one condition per delete mask), one-line up to 4; (b) lists up to 3, 5 approved subsets"},
    "outside": "layouts not in the template list for (b); asttokens' own position computation and asttokens.util.replace are executed, not encoded",
    "assumptions": ["(a) elements are abstract atoms; gaps between kept elements contain exactly one comma (Python syntax)",
                    "(b) stub: repr of a symbolic int leaf is a name token"],
}

world.prewarm(
    lambda: gsu_case("Tuple", 2, [(1, 0), (1, 1), (1, 1), (1, 3), (1, 5), (2, 2), (3, 0)], [True, False], [0, 0, 0], True, False),
    lambda: gsu_case("List", 2, [(1, 0), (1, 1), (1, 1), (1, 3), (1, 5), (2, 2), (3, 0)], [False, True], [1, 0, 1], False, False),
)
