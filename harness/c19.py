"""C19 - the public testing helpers reproduce what a real session does.

The same template and the same symbolic values go through (1) the real inline_snapshot.testing.Example.run_inline and
(2) the real plugin hooks (D-plugin) for every category subset: changed file texts and reported categories must be
identical on every path.  Example.run_pytest and a real `pytest` process cannot carry symbolic data: they are compared on a
fixed corpus (contract validation, labelled).
"""
from __future__ import annotations

import contextlib
import io
import pathlib
import shutil
import sys
import types

import inline_snapshot.testing._example as EX
from harness.support import SUPPORT_NS
from inline_snapshot.testing import Example
from vlib import world
from vlib.common import REPO_SRC, Cond, PathLog, mkfn, scratch_dir
from vlib.world import W

ID = "C19"
world.install_plugin_shims()
CATS = ["create", "fix", "trim", "update"]


class DetTmp:
    """deterministic replacement of tempfile.TemporaryDirectory inside testing/_example.py (CrossHair makes `random`
    symbolic, which ends in proxy intolerance); content is wiped on entry"""

    def __enter__(self):
        with world.NoTracing():
            p = pathlib.Path(scratch_dir()) / "inline_tmp"
            if p.exists():
                shutil.rmtree(p)
            p.mkdir(parents=True)
        return str(p)

    def __exit__(self, *a):
        return False


EX.TemporaryDirectory = DetTmp
SV = types.ModuleType("verif_symvals")
sys.modules["verif_symvals"] = SV


class Capture:
    v = None

    def __eq__(self, other):
        self.v = other
        return True


HEAD = "from inline_snapshot import snapshot\nfrom verif_symvals import *\n\n"
TEMPLATES = {
    "list_and_create": ("    res.append(new == snapshot([c0, c1]))\n    res.append(new[0] == snapshot())\n", ["c0", "c1", "n0", "n1", "n2"], "[n0, n1, n2]"),
    "bound_and_member": ("    for x in new:\n        res.append(x <= snapshot(c0))\n    res.append(new[0] in snapshot([c1, h2]))\n", ["c0", "c1", "h2", "n0", "n1"], "[n0, n1]"),
    "sub_snapshots": ("    s = snapshot({1: c0, 2: h1})\n    res.append(s[2] == new[0])\n    res.append(s[3] == new[1])\n", ["c0", "h1", "n0", "n1"], "[n0, n1]"),
    "dataclass_hand": ("    res.append(new == snapshot(P(a=h0, b=5)))\n", ["h0", "n0", "n1"], "P(a=n0, b=n1)"),
    "aborting_assert": ("    assert new[0] == snapshot(c0)\n    assert new[1] <= snapshot(c1)\n", ["c0", "c1", "n0", "n1"], "[n0, n1]"),
    "hasrepr": ("    res.append(new == snapshot())\n", ["n0"], "[n0, Weird(1)]"),
    "hasrepr_list_insert": ("    res.append(new == snapshot([c0]))\n", ["c0", "n0"], "[n0, Weird(1)]"),
    "hasrepr_new_key": ("    s = snapshot({1: c0})\n    res.append(s[1] == new[0])\n    res.append(s[2] == new[1])\n", ["c0", "n0"], "[n0, Weird(2)]"),
    "hasrepr_dict_insert": ("    res.append(new == snapshot({1: c0}))\n", ["c0", "n0"], "{1: n0, 2: Weird(3)}"),
    # several files: one needs create and fix, the other only create
    "two_files": ("    res.append(new[0] == snapshot())\n    res.append(new[1] == snapshot(c0))\n", ["c0", "n0", "n1"], "[n0, n1]"),
}


SECOND_FILE = {"two_files": "    res.append(new[1] == snapshot())\n"}


def helper_case(tname, fbits, vals):
    body, names, new_src = TEMPLATES[tname]
    ns = dict(SUPPORT_NS)
    ns.update(vals)
    world.reset(ns)
    W.ns["new"] = eval(new_src, dict(W.ns))
    W.ns["res"] = []
    flags = [c for c, b in zip(CATS, fbits) if b]
    text = HEAD + "def test_a():\n" + body
    text = world.prepare(text)
    files = {"test_a.py": text}
    if tname in SECOND_FILE:
        files["test_b.py"] = world.prepare(HEAD + "def test_b():\n" + SECOND_FILE[tname])
    # ---- (1) Example.run_inline, unmodified
    for k in list(vars(SV)):
        if not k.startswith("__"):
            delattr(SV, k)
    for k, v in W.ns.items():
        setattr(SV, k, v)
    SV.__all__ = list(W.ns)
    cap_cat, cap_files = Capture(), Capture()
    err1 = None
    with contextlib.redirect_stdout(io.StringIO()), contextlib.redirect_stderr(io.StringIO()):
        try:
            Example(dict(files)).run_inline(["--inline-snapshot=" + ",".join(flags)] if flags else [], reported_categories=cap_cat, changed_files=cap_files, raises=Capture())
        except Exception as e:
            err1 = e
    inline_files = dict(cap_files.v or {})
    inline_cats = sorted(cap_cat.v or [])
    # ---- (2) the real plugin hooks
    W.ns["res"] = []
    r = world.plugin_session(dict(files), cli=",".join(flags + ["report"]), extra_globals={k: v for k, v in W.ns.items()})
    plugin_files = {k: v for k, v in r.written.items()}
    plugin_cats = sorted(c for c in CATS if any(p == f"RULE [yellow bold]{c.capitalize()} snapshots" for p in r.printed))
    PathLog.record(tname + str(flags) + str(inline_files) + str(plugin_files), nontrivial=bool(inline_files),
                   sample={"template": tname, "flags": flags, "run_inline_changed": {k: world.snapshot_arg_sources(v) for k, v in inline_files.items()}, "plugin_changed": {k: world.snapshot_arg_sources(v) for k, v in plugin_files.items()},
                           "run_inline_reported": inline_cats, "plugin_reported": plugin_cats})
    if err1 is not None or r.finish_error is not None:
        return False
    if inline_files != plugin_files:
        return False
    return inline_cats == plugin_cats


def real_process_corpus():
    """contract validation (no solver): Example.run_inline, Example.run_pytest and a real pytest process on fixed projects"""
    ok = True
    projects = [
        ("from inline_snapshot import snapshot\n\n\ndef test_a():\n    assert [1, 5, 3] == snapshot([1, 2])\n    assert 3 == snapshot()\n", "create,fix"),
        ("from inline_snapshot import snapshot\n\n\ndef test_a():\n    assert 2 <= snapshot(9)\n    assert 7 in snapshot([1, 7, 8])\n", "trim"),
        ("from inline_snapshot import snapshot\n\n\ndef test_a():\n    s = snapshot({'a': 1, 'b': 2})\n    assert s['a'] == 5\n    assert s['c'] == 6\n", "create,fix,trim"),
        ("from inline_snapshot import snapshot\n\n\ndef test_a():\n    assert 5 == snapshot(2 + 3)\n    assert 'a\\nb\\n' == snapshot('a\\nb\\n')\n", "update"),
        ("from inline_snapshot import snapshot\n\n\ndef test_a():\n    assert (1, 2) == snapshot((1,))\n", "report"),
    ]
    for text, flags in projects:
        cap = Capture()
        with contextlib.redirect_stdout(io.StringIO()), contextlib.redirect_stderr(io.StringIO()):
            e1 = Example({"test_a.py": text}).run_inline([f"--inline-snapshot={flags}"], changed_files=cap, raises=Capture(), reported_categories=Capture())
            e2 = Example({"test_a.py": text}).run_pytest([f"--inline-snapshot={flags}"], changed_files=Capture(), returncode=Capture(), env={"PYTHONPATH": REPO_SRC})
        rc, out, after, _ = world.real_pytest({"test_a.py": text}, [f"--inline-snapshot={flags}"])
        a, b, c = e1.files["test_a.py"], e2.files["test_a.py"], after["test_a.py"]
        PathLog.record(text + flags, nontrivial=True, sample={"flags": flags, "identical": a == b == c, "run_inline": world.snapshot_arg_sources(a), "run_pytest": world.snapshot_arg_sources(b), "real_pytest": world.snapshot_arg_sources(c)})
        if not (a == b == c):
            ok = False
    return ok


GLB = {"helper_case": helper_case, "__name__": "harness.c19"}


def conditions(tier):
    conds = []
    fb = [(f"f{i}", "bool") for i in range(4)]
    for tname, (body, names, new_src) in TEMPLATES.items():
        for fix in (False, True):
            vd = "{" + ", ".join(f"{n!r}: {n}" for n in names) + "}"
            name = f"helpers_{tname}_{'fix' if fix else 'nofix'}"
            conds.append(Cond(name, mkfn(name, fb + [(n, "int") for n in names], f"return helper_case({tname!r}, [f0, f1, f2, f3], {vd})", GLB, pre=[f"f1 == {fix}"]), timeout=1200, group="helpers-" + tname,
                              bounds=f"template `{tname}` through Example.run_inline and through the plugin hooks, fix={fix}, every subset of create/trim/update, all ints symbolic"))
    tw = mkfn("helpers_twin", fb + [(n, "int") for n in TEMPLATES["list_and_create"][1]], "return helper_case('list_and_create', [f0, f1, f2, f3], {'c0': c0, 'c1': c1, 'n0': n0, 'n1': n1, 'n2': n2})", GLB, pre=["f0 and f1"], post="not _")
    conds.append(Cond("helpers_twin", tw, timeout=60, twin=True))
    conds.append(Cond("real_process_corpus", real_process_corpus, concrete=True, group="contract-validation", bounds="5 fixed projects: Example.run_inline vs Example.run_pytest vs a real pytest process write identical files"))
    return conds


META = {
    "bounds": {"quick": f"{len(TEMPLATES)} templates x 16 category subsets, all ints symbolic: run_inline vs the in-process plugin hooks", "thorough": "same"},
    "outside": "projects with externals (excluded by the property); Example.run_pytest and real pytest processes only on the fixed corpus (they cannot carry symbolic data); report text",
    "assumptions": ["tempfile.TemporaryDirectory inside testing/_example.py replaced by a deterministic scratch directory; symbolic values reach the exec'd file through `from verif_symvals import *`",
                    "plugin side: flags F + report (so that pending categories are shown); reported categories = category headers printed by pytest_sessionfinish"],
}

world.prewarm(lambda: helper_case("list_and_create", [True, True, False, False], {"c0": 1, "c1": 2, "n0": 1, "n1": 5, "n2": 6}))
