"""C07 - a wrong or missing snapshot never yields a green run.

D-plugin: the outcome of a test is taken from the real autouse fixture generator (snapshot_check) around the real test
body.  Symbolic: all values, the flag bits create/fix/trim/update/review/report.  Oracle (both directions):
(some executed snapshot is empty or fails its comparison against the value in the source)  <=>  outcome != passed.
"""
from __future__ import annotations

from vlib import world
from vlib.common import Cond, PathLog, mkfn
from vlib.world import W

ID = "C07"
world.install_plugin_shims()
HEAD = "from inline_snapshot import snapshot\n\n"
FLAGS = ["create", "fix", "trim", "update", "review", "report"]

SUBJECT = {
    "eq": ("    assert x0 == snapshot({a})", "c0"),
    "le": ("    assert x0 <= snapshot({a})", "c0"),
    "ge": ("    for x in [x0, x1]:\n        assert x >= snapshot({a})", "c0"),
    "in": ("    assert x0 in snapshot({a})", "[c0, c1]"),
    "gi": ("    s = snapshot({a})\n    assert s[1] == x0", "{{1: c0}}"),
    "align_raises": ("    try:\n        assert [x0, AmbiguousEq()] == snapshot({a})\n    except ValueError:\n        pass", "[c0, c1]"),
    "nested": ("    assert [x0, x1] == snapshot({a})", "[snapshot(c0), snapshot(c1)]"),
    "nested3": ("    assert [x0, x1, x0] == snapshot({a})", "[snapshot(c0), c1, snapshot(c0)]"),
}


class AmbiguousEq:
    """like a numpy array: comparing it with something else raises"""

    def __eq__(self, other):
        if isinstance(other, AmbiguousEq):
            return True
        raise ValueError("ambiguous truth value")

    def __repr__(self):
        return "AmbiguousEq()"


def subject_wrong(op, v):
    if op == "align_raises":
        return False  # the comparison raises (the test swallows it): it is no result of a snapshot
    if op == "eq":
        return not (v["x0"] == v["c0"])
    if op == "le":
        return not (v["x0"] <= v["c0"])
    if op == "ge":
        return not (v["x0"] >= v["c0"] and v["x1"] >= v["c0"])
    if op == "in":
        return not (v["x0"] == v["c0"] or v["x0"] == v["c1"])
    if op in ("nested", "nested3"):
        return not (v["x0"] == v["c0"] and v["x1"] == v["c1"])
    return not (v["c0"] == v["x0"])


def green_case(op, pos, empty, fbits, vals, raising=False, finish=False):
    """3 snapshots in one test: the subject (operation `op`, possibly empty) at position pos, two == snapshots around it"""
    ns0 = dict(vals)
    ns0["AmbiguousEq"] = AmbiguousEq
    world.reset(ns0)
    W.no_canon = True  # the text is never read here: no need to fork on which canonical token a value renders to
    try:
        line, arg = SUBJECT[op]
        others = ["    assert y0 == snapshot(d0)", "    assert y1 == snapshot(d1)"]
        lines = list(others)
        lines.insert(pos, line.format(a="" if empty else arg.replace("{{", "{").replace("}}", "}")))
        body = "\n".join(lines) + "\n"
        if raising:
            body += "    raise ValueError('test bug')\n"
        t = HEAD + "def test_a():\n" + body
        flags = [n for n, b in zip(FLAGS, fbits) if b]
        r = world.plugin_session(t, cli=",".join(flags) if flags else "short-report", answers=[False] * 4, finish=finish)
    finally:
        W.no_canon = False
    if r.usage_error is not None or r.finish_error is not None:
        return False
    outcome = r.outcomes.get(("test_a.py", "test_a"))
    v = vals
    bad = bool(empty) or raising
    if subject_wrong(op, v):
        bad = True
    if not (v["y0"] == v["d0"]):
        bad = True
    if not (v["y1"] == v["d1"]):
        bad = True
    PathLog.record(f"{op}{pos}{empty}{flags}{outcome}{bad}", nontrivial=True, sample={"subject": op, "position": pos, "subject_empty": bool(empty), "flags": flags, "outcome": outcome, "some_snapshot_wrong_or_missing": bool(bad)})
    return (outcome != "passed") == bad


def outside_case(fbits, vals, xfail_first):
    """comparisons made outside any test item (at import time) are not charged to a test: each test fails exactly when one
    of its own snapshots is wrong"""
    world.reset(dict(vals))
    W.no_canon = True
    try:
        t = (HEAD + "probe = [x0 == snapshot(c0), x1 <= snapshot(c1)]\n\n\n"
             + ("import pytest\n\n\n@pytest.mark.xfail\ndef test_0():\n    assert x0 == snapshot(c0)\n\n\n" if xfail_first else "")
             + "def test_a():\n    assert y0 == snapshot(d0)\n\n\ndef test_b():\n    assert y1 == snapshot(d1)\n")
        flags = [n for n, b in zip(FLAGS, fbits) if b]
        r = world.plugin_session(t, cli=",".join(flags) if flags else "short-report", answers=[False] * 4, finish=False, xfail=("test_0",) if xfail_first else ())
    finally:
        W.no_canon = False
    if r.usage_error is not None or r.finish_error is not None:
        return False
    oa = r.outcomes.get(("test_a.py", "test_a"))
    ob = r.outcomes.get(("test_a.py", "test_b"))
    v = vals
    PathLog.record(f"outside{flags}{oa}{ob}{xfail_first}", nontrivial=True, sample={"flags": flags, "xfail_test_first": bool(xfail_first), "outcomes": [oa, ob]})
    return (oa != "passed") == (not (v["y0"] == v["d0"])) and (ob != "passed") == (not (v["y1"] == v["d1"]))


def wrong_single(op, x, v):
    if op in ("eq", "gi"):
        return not (x == v["c0"])
    if op == "le":
        return not (x <= v["c0"])
    if op == "ge":
        return not (x >= v["c0"])
    return not (x == v["c0"] or x == v["c1"])


def shared_case(op, fbits, vals, order, empty=False):
    """the same snapshot() call site (inside a helper) is executed by two test items with different values: each
    item is judged on its own comparison (incorrect_values is per item, the snapshot object lives for the session)"""
    if op in ("eq", "gi"):
        # one == snapshot compared with two different values contradicts itself (exempt): both items see the same value
        vals = dict(vals)
        vals["x1"] = vals["x0"]
    world.reset(dict(vals))
    W.no_canon = True
    try:
        arg = {"eq": "c0", "le": "c0", "ge": "c0", "in": "[c0, c1]", "gi": "{1: c0}"}[op]
        if empty:
            arg = ""
        cmpx = {"eq": "x == snapshot({a})", "le": "x <= snapshot({a})", "ge": "x >= snapshot({a})", "in": "x in snapshot({a})", "gi": "snapshot({a})[1] == x"}[op].format(a=arg)
        first, second = ("x0", "x1") if order else ("x1", "x0")
        t = HEAD + f"def check(x):\n    assert {cmpx}\n\ndef test_a():\n    check({first})\n\ndef test_b():\n    check({second})\n"
        flags = [n for n, b in zip(FLAGS, fbits) if b]
        r = world.plugin_session(t, cli=",".join(flags) if flags else "short-report", answers=[False] * 4, finish=False)
    finally:
        W.no_canon = False
    if r.usage_error is not None:
        return False
    oa = r.outcomes.get(("test_a.py", "test_a"))
    ob = r.outcomes.get(("test_a.py", "test_b"))
    va, vb = (vals["x0"], vals["x1"]) if order else (vals["x1"], vals["x0"])
    wa, wb = wrong_single(op, va, vals), wrong_single(op, vb, vals)
    if empty:
        wa = wb = True  # a missing value: every item that executes the snapshot is failed or errored
    PathLog.record(f"shared{op}{empty}{flags}{oa}{ob}", nontrivial=True, sample={"shared_call_site": op, "flags": flags, "outcomes": [oa, ob], "wrong": [bool(wa), bool(wb)]})
    return (oa != "passed") == wa and (ob != "passed") == wb


def real_exit_status():
    """contract validation (no solver): pytest turns a failing autouse-fixture teardown / failing test into a non-zero
    exit status, and a test whose snapshots all hold passes - with the real plugin in a real pytest process."""
    ok = True
    wrong = HEAD + "def test_a():\n    assert 1 == snapshot(2)\n    assert 5 <= snapshot(9)\n"
    missing = HEAD + "def test_a():\n    assert 1 == snapshot()\n"
    fine = HEAD + "def test_a():\n    assert 1 == snapshot(1)\n    assert 5 <= snapshot(9)\n    assert 3 in snapshot([3, 4])\n"
    wrong_bound = HEAD + "def test_a():\n    assert 5 <= snapshot(3)\n\ndef test_b():\n    assert 5 in snapshot([1, 2])\n"
    for text, args, want_zero in [(wrong, ["--inline-snapshot=fix"], False), (wrong_bound, ["--inline-snapshot=fix"], False), (wrong_bound, ["--inline-snapshot=update"], False), (wrong, ["--inline-snapshot=create,fix,trim,update"], False), (missing, ["--inline-snapshot=create"], False),
                                  (missing, [], False), (fine, ["--inline-snapshot=fix,trim"], True), (fine, [], True)]:
        rc, out, after, _ = world.real_pytest({"test_a.py": text}, args)
        PathLog.record(f"{text}{args}{rc}", nontrivial=True, sample={"args": args, "returncode": rc, "expected_zero": want_zero})
        if (rc == 0) != want_zero:
            ok = False
    return ok


SHARED_OPS = [op for op in SUBJECT if not op.startswith("nested") and op != "align_raises"]
GLB = {"outside_case": outside_case, "green_case": green_case, "shared_case": shared_case, "__name__": "harness.c07"}
VALS = ["c0", "c1", "x0", "x1", "y0", "d0", "y1", "d1"]
VD = "{" + ", ".join(f"{n!r}: {n}" for n in VALS) + "}"


def conditions(tier):
    q = tier == "quick"
    conds = []
    fb = [(f"f{i}", "bool") for i in range(6)]
    for op in SUBJECT:
        for pos in (0, 1, 2) if not op.startswith('nested') else (1,):
            for empty in (False, True):
                for fix in (False, True):
                    for create in (False, True):
                        body = f"return green_case({op!r}, {pos}, {empty}, [f0, f1, f2, f3, f4, f5], {VD})"
                        name = f"green_{op}_p{pos}_{'empty' if empty else 'full'}_{'fix' if fix else 'nofix'}_{'create' if create else 'nocreate'}"
                        pre = [f"f1 == {fix} and f0 == {create}"]
                        if q:
                            pre.append("not f5")
                        fn = mkfn(name, fb + [(n, "int") for n in VALS], body, GLB, pre=pre)
                        conds.append(Cond(name, fn, timeout=900, group="green",
                                          bounds=f"3 snapshots in one test; subject `{op}` at position {pos}, {'empty' if empty else 'with argument'}; all 8 values symbolic; fix={fix}, create={create}, every subset of trim/update/review{'/report' if not q else ''}"))
    for op in SHARED_OPS:
        for create in (False, True):
            body = f"return shared_case({op!r}, [f0, f1, f2, f3, f4, f5], {{'c0': c0, 'c1': c1, 'x0': x0, 'x1': x1}}, order, True)"
            name = f"shared_empty_{op}_{'create' if create else 'nocreate'}"
            fn = mkfn(name, fb + [("c0", "int"), ("c1", "int"), ("x0", "int"), ("x1", "int"), ("order", "bool")], body, GLB, pre=[f"f0 == {create} and not f5"])
            conds.append(Cond(name, fn, timeout=900, group="shared",
                              bounds=f"one *empty* `{op}` snapshot call site inside a helper executed by two test items (equal or different symbolic values); create={create}, every subset of fix/trim/update/review"))
    for op in SHARED_OPS:
        for fix in (False, True):
            body = f"return shared_case({op!r}, [f0, f1, f2, f3, f4, f5], {{'c0': c0, 'c1': c1, 'x0': x0, 'x1': x1}}, order)"
            name = f"shared_{op}_{'fix' if fix else 'nofix'}"
            fn = mkfn(name, fb + [("c0", "int"), ("c1", "int"), ("x0", "int"), ("x1", "int"), ("order", "bool")], body, GLB, pre=[f"f1 == {fix} and not f5"])
            conds.append(Cond(name, fn, timeout=900, group="shared",
                              bounds=f"one `{op}` snapshot call site inside a helper executed by two test items with symbolic values in either order; fix={fix}, every subset of create/trim/update/review"))
    body = f"return green_case('eq', 1, False, [f0, f1, f2, f3, f4, f5], {VD}, True)"
    conds.append(Cond("green_raising_test", mkfn("green_raising_test", fb + [(n, "int") for n in VALS], body, GLB, pre=["not f4 and not f5"]), timeout=900, group="green", bounds="test body raises after its snapshots"))
    body = f"return green_case('le', 1, False, [f0, f1, f2, f3, f4, f5], {VD}, False, True)"
    conds.append(Cond("green_with_sessionfinish", mkfn("green_with_sessionfinish", fb + [(n, "int") for n in VALS], body, GLB, pre=["not f4 and not f5 and not f3"]), timeout=900, group="green", bounds="same with the real pytest_sessionfinish executed afterwards (state handling)"))
    for xf in (False, True):
        name = f"outside_test_items{'_xfail_first' if xf else ''}"
        body = f"return outside_case([f0, f1, f2, f3, f4, f5], {VD}, {xf})"
        conds.append(Cond(name, mkfn(name, fb + [(n, "int") for n in VALS], body, GLB, pre=["not f4 and not f5"]), timeout=900, group="green",
                          bounds="two snapshot comparisons at import time (== and <=, right or wrong by symbolic values)" + (", an xfail test," if xf else "") + " then two tests with one == snapshot each; every subset of create/fix/trim/update"))
    tw = mkfn("green_twin", fb + [(n, "int") for n in VALS], f"return green_case('in', 1, False, [f0, f1, f2, f3, f4, f5], {VD})", GLB, pre=["f1 and not f4"], post="not _")
    conds.append(Cond("green_twin", tw, timeout=60, twin=True))
    conds.append(Cond("real_exit_status", real_exit_status, concrete=True, group="contract-validation", bounds="8 fixed projects in a real pytest process: exit status non-zero iff a snapshot is wrong or missing"))
    return conds


META = {
    "bounds": {"quick": "one test with 3 snapshots: a subject of any of the five operations or an == snapshot holding inner snapshot() calls (>= evaluated twice in a loop) at any of 3 positions, empty or not, between two == snapshots; all 8 values symbolic ints; one call site (with argument or empty) shared by two test items; all subsets of create/fix/trim/update/review (thorough: also report)",
               "thorough": "same"},
    "outside": "snapshots executed outside test functions (module import time), uncopyable values, arguments that change between evaluations, more than 5 snapshots per test",
    "assumptions": ["pytest turns a failing autouse-fixture teardown into an error and a non-zero exit status: validated by the real_exit_status item (real pytest process, no solver), not quantified",
                    "review answers are all 'n' here (C04 quantifies the answers)"],
}

world.prewarm(lambda: green_case("le", 1, False, [False, True, False, False, False, False], {n: 1 for n in VALS}), lambda: green_case("gi", 0, True, [True, False, False, False, False, False], {n: 1 for n in VALS}))
