"""C08 - a second run is a no-op.

Two-session history on materialised text: run 1 with approved set F on a template, run 2 with the same F on the text
run 1 produced (same symbolic observations).  Oracle: run 2 changes nothing, for every F; after F = all four categories
run 2 has no pending category at all and every comparison holds.  The placeholder names the renderer introduced in run 1
stay bound to their symbolic values, so 'token-stable' is decided per path.
"""
from __future__ import annotations

import itertools

from harness.support import SUPPORT_NS
from vlib import world
from vlib.common import Cond, PathLog, mkfn
from vlib.world import W

ID = "C08"
world.install_shims()
HEAD = "from inline_snapshot import snapshot\n\n"
CATS = ("create", "fix", "trim", "update")

# name -> (test body, symbolic names, how observations are bound)
TEMPLATES = {
    "eq_list": ("    res.append(new == snapshot([c0, c1]))\n", ["c0", "c1", "n0", "n1", "n2"], "[n0, n1, n2]"),
    "eq_list_hand": ("    res.append(new == snapshot([h0, c1]))\n", ["h0", "c1", "n0", "n1"], "[n0, n1]"),
    "eq_tuple1": ("    res.append(new == snapshot((c0, c1)))\n", ["c0", "c1", "n0"], "(n0,)"),
    "eq_dict": ("    res.append(new == snapshot({1: c0, 2: h1}))\n", ["c0", "h1", "n0", "n1"], "{2: n0, 3: n1}"),
    "eq_dataclass": ("    res.append(new == snapshot(P(a=c0, b=5)))\n", ["c0", "n0", "n1"], "P(a=n0, b=n1)"),
    "eq_dataclass_pos": ("    res.append(new == snapshot(P(c0, c=[c1])))\n", ["c0", "c1", "n0", "n1"], "P(a=n0, c=[n1])"),
    "eq_create": ("    res.append(new == snapshot())\n", ["n0", "n1"], "[n0, (n1,), {1: n0}]"),
    "eq_tuple1_for_other_type": ("    res.append(new == snapshot({1: c0, 2: [c1]}))\n", ["c0", "c1", "n0", "n1"], "{1: (n0,), 2: [(n1,)]}"),
    "eq_tuple1_in_dataclass": ("    res.append(new == snapshot(P(a=c0, c=[c1])))\n", ["c0", "c1", "n0", "n1"], "P(a=(n0,), c=[(), (n1,)])"),
    "eq_type_change": ("    res.append(new == snapshot(c0))\n", ["c0", "n0"], "[n0]"),
    "le_loop": ("    for x in new:\n        res.append(x <= snapshot(c0))\n", ["c0", "n0", "n1"], "[n0, n1]"),
    "ge_hand": ("    for x in new:\n        res.append(x >= snapshot(h0))\n", ["h0", "n0", "n1"], "[n0, n1]"),
    "le_create": ("    for x in new:\n        res.append(x <= snapshot())\n", ["n0", "n1"], "[n0, n1]"),
    "in_loop": ("    for x in new:\n        res.append(x in snapshot([c0, h1]))\n", ["c0", "h1", "n0", "n1"], "[n0, n1]"),
    "in_create": ("    for x in new:\n        res.append(x in snapshot())\n", ["n0", "n1"], "[n0, n1]"),
    "in_hasrepr_strict_eq": ("    res.append(Strict(1) in snapshot([c0]))\n    for x in new:\n        res.append(x in snapshot())\n    res.append(snapshot() == Strict(2))\n", ["c0", "n0"], "[n0]"),
    "getitem": ("    s = snapshot({1: c0, 2: c1})\n    res.append(s[1] == new[0])\n    res.append(s[3] == new[1])\n", ["c0", "c1", "n0", "n1"], "[n0, n1]"),
    "getitem_nested": ("    s = snapshot({1: {2: h0}})\n    res.append(s[1][2] == new[0])\n    res.append(s[1][3] == new[1])\n", ["h0", "n0", "n1"], "[n0, n1]"),
    "tuple_mutated_after": ("    v = (new[0], [new[1]])\n    res.append(v == snapshot())\n    v[1].append(new[0])\n", ["n0", "n1"], "[n0, n1]"),
    "list_in_mutated_after": ("    acc = []\n    for x in new:\n        acc.append(x)\n        res.append((x, acc) in snapshot())\n", ["n0", "n1"], "[n0, n1]"),
    "two_sites": ("    res.append(new[0] == snapshot(c0))\n    res.append(new[1] <= snapshot(c1))\n    res.append(new[0] == snapshot())\n", ["c0", "c1", "n0", "n1"], "[n0, n1]"),
}


def twice_case(tname, approved, vals):
    body, names, new_src = TEMPLATES[tname]
    ns = dict(SUPPORT_NS)
    from inline_snapshot import HasRepr

    ns["HasRepr"] = HasRepr  # D-core does not insert the import (that is the plugin's part, C03)
    ns.update(vals)
    world.reset(ns)
    new = eval(new_src, dict(W.ns))
    W.ns["new"] = new
    W.ns["res"] = []
    t = HEAD + "def test_a():\n" + body
    r1 = world.core_session(t, approved)
    if r1.outcomes.get("test_a") != "passed":
        return False
    W.ns["res"] = []
    g = dict(W.ph)  # names introduced by the renderer in run 1
    r2 = world.core_session(r1.text, approved, extra_globals=g)
    res2 = r2.ns["res"]
    PathLog.record(tname + str(sorted(approved)) + r1.text + "|" + r2.text, nontrivial=r1.changed,
                   sample={"template": tname, "approved": sorted(approved), "after_run_1": world.snapshot_arg_sources(r1.text), "pending_in_run_2": sorted(r2.categories), "run_2_changed_file": r2.changed})
    if r2.outcomes.get("test_a") != "passed":
        return False
    if r2.changed:
        return False  # re-running with the same approved set never changes a file a second time
    if set(approved) == set(CATS):
        if r2.categories:
            return False  # nothing to create, fix, trim (or update) is left
        for b in res2:
            if not b:
                return False
    # what is still pending in run 2 must be a category that was not approved
    for c in r2.categories:
        if c in approved:
            return False
    return True


def leaf_corpus_twice():
    """contract validation (no solver): real repr / tokens / black for non-int leaves - three runs, the 2nd and 3rd write nothing"""
    from collections import defaultdict

    from harness.support import NT, Color, P, Perm, Weird

    world.install_plugin_shims()
    T = "from inline_snapshot import snapshot\n\ndef test_a():\n    assert obs == snapshot()\n    assert [obs] == snapshot()\n    assert {1: obs} == snapshot({1: None})\n"
    vals = [1j, 1 + 2j, -1j, complex(0, -0.0), 1.5, -0.0, 1e100, float("inf"), -5, 2 ** 70, True, None, Color.red, Perm.r | Perm.w, P(a=1), NT(a=1), {1, 2}, frozenset(), defaultdict(list, {1: [2]}),
            Weird(1), (1,), (), b"x", P, int, ..., "a\nb", " a ", "é", [1.5, (2j,)], {"k": {3j}}]
    ok = True
    for v in vals:
        world.reset({**SUPPORT_NS, "defaultdict": defaultdict, "obs": v})
        r1 = world.plugin_session(T, cli="create,fix")
        t1 = world.text_after(r1)
        r2 = world.plugin_session(t1, cli="create,fix,trim,update")
        t2 = world.text_after(r2)
        r3 = world.plugin_session(t2, cli="create,fix,trim,update")
        good = not r2.written and not r3.written and r1.finish_error is None and r2.finish_error is None
        PathLog.record(repr(v), nontrivial=True, sample={"value": repr(v), "after_run_1": world.snapshot_arg_sources(t1), "run_2_rewrote": bool(r2.written), "run_3_rewrote": bool(r3.written)})
        if not good:
            ok = False
    return ok


GLB = {"twice_case": twice_case, "__name__": "harness.c08"}


def conditions(tier):
    q = tier == "quick"
    conds = []
    subsets = [set(s) for k in range(5) for s in itertools.combinations(CATS, k)]
    if q:
        subsets = [set(CATS), {"create", "fix"}, {"fix"}, {"trim"}, {"update"}, {"fix", "trim"}, set()]
    for tname, (body, names, new_src) in TEMPLATES.items():
        for sub in subsets:
            vd = "{" + ", ".join(f"{n!r}: {n}" for n in names) + "}"
            name = f"twice_{tname}_{''.join(sorted(c[0] for c in sub)) or 'none'}"
            conds.append(Cond(name, mkfn(name, [(n, "int") for n in names], f"return twice_case({tname!r}, {sub!r}, {vd})", GLB), timeout=900, group="twice-" + tname,
                              bounds=f"template `{tname}` ({body.strip()!r}, observed {new_src}), run twice with approved {sorted(sub)}; all ints symbolic"))
    conds.append(Cond("leaf_corpus_twice", leaf_corpus_twice, concrete=True, group="contract-validation", bounds="31 non-int leaf values (complex, float, big/negative int, bool, None, Enum, Flag, dataclass, namedtuple, set, frozenset, defaultdict, HasRepr, tuples, bytes, types, Ellipsis, strs) created and then run twice more with all categories approved: nothing is rewritten"))
    tw = mkfn("twice_twin", [(n, "int") for n in ["c0", "c1", "n0", "n1", "n2"]], "return twice_case('eq_list', {'fix'}, {'c0': c0, 'c1': c1, 'n0': n0, 'n1': n1, 'n2': n2})", GLB, post="not _")
    conds.append(Cond("twice_twin", tw, timeout=60, twin=True))
    return conds


META = {
    "bounds": {"quick": f"{len(TEMPLATES)} templates (lists, 1-tuples, dicts, dataclass calls with default / positional arguments, hand-written arguments, type change, bounds, membership, sub-snapshots, three sites in one test) x 7 approved subsets; all ints symbolic",
               "thorough": "all 16 approved subsets"},
    "outside": "leaf tokens other than ints (complex, float, str: the literal corpus of C12 runs every value twice; complex numbers are in that corpus); more than two sessions",
    "assumptions": ["stub: repr of a symbolic int leaf is a name token; the names introduced in run 1 stay bound to their symbolic values in run 2 (so 'the token is stable' is the solver-decided statement 'equal values render to equal tokens')",
                    "test bodies record comparison results instead of asserting, so both runs observe the same comparisons"],
}

world.prewarm(lambda: twice_case("eq_list", {"fix"}, {"c0": 1, "c1": 2, "n0": 1, "n1": 5, "n2": 6}), lambda: twice_case("in_loop", set(CATS), {"c0": 1, "h1": 2, "n0": 2, "n1": 3}))
