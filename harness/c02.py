"""C02 - approving create and fix repairs every reached snapshot in a single run.

Driver D-core (vlib.world.core_session): the real snapshot() call sites, value classes, adapters, _align, all
Change kinds, apply_all, generic_sequence_update, ChangeRecorder, SourceFile.new_code, real tokenizer, real black.
Symbolic: every leaf of the previous content and of the observed value; concrete: the shapes (enumerated).
"""
from __future__ import annotations

import ast
import itertools

from harness.support import SUPPORT_NS
from vlib import shapes as S
from vlib import world
from vlib.common import Cond, PathLog, mkfn
from vlib.world import W

ID = "C02"
world.install_shims()

HEAD = "from inline_snapshot import snapshot\n\n"


def passes_disabled(text, comparisons):
    """Re-execute the recorded comparisons against the values read back from the rewritten text
    (snapshot := identity).  comparisons: [(index of snapshot call, op, observed value)]."""
    vals = world.snapshot_values(text)
    for idx, op, x in comparisons:
        v = vals[idx]
        if v is world.MISSING:
            return False
        if op == "==":
            if not (x == v):
                return False
        elif op == "<=":
            if not (x <= v):
                return False
        elif op == ">=":
            if not (x >= v):
                return False
        elif op == "in":
            if not (x in v):
                return False
        elif op == "[]":
            k, xv = x
            if k not in v or not (v[k] == xv):
                return False
    return True


def fix_case(old_src, new_src, leafvals, e0, e1, full=True):
    """full: an earlier == snapshot that may fail, then the snapshot under test, then an empty one.
    not full: only the snapshot under test."""
    ns = dict(SUPPORT_NS)
    ns.update(leafvals)
    if full:
        ns["c9"] = e0
        ns["x9"] = e1
    world.reset(ns)
    new = eval(new_src, dict(ns))
    ns["new"] = new
    W.ns["new"] = new
    if full:
        t = HEAD + f"def test_a():\n    assert x9 == snapshot(c9)\n    assert new == snapshot({old_src})\n    assert x9 == snapshot()\n"
    else:
        t = HEAD + f"def test_a():\n    assert new == snapshot({old_src})\n"
    r = world.core_session(t, {"create", "fix"})
    ast.parse(r.text)
    if full:
        ok = passes_disabled(r.text, [(0, "==", e1), (1, "==", new), (2, "==", e1)])
    else:
        ok = passes_disabled(r.text, [(0, "==", new)])
    PathLog.record(old_src + "=>" + r.text, nontrivial=r.changed,
                   sample={"previous": old_src, "observed": new_src, "rewritten_args": world.snapshot_arg_sources(r.text)})
    return ok


def mutated_case(kind, n0, n1, n2, c0):
    """the compared value is mutated later in the same test; every snapshot reached holds a value the re-run passes with"""
    world.reset({"n0": n0, "n1": n1, "n2": n2, "c0": c0})
    v = {"tuple": "(n0, [n1])", "list": "[n0, [n1]]", "dict": "{1: [n1], 2: n0}"}[kind]
    mut = {"tuple": "v[1].append(n2)", "list": "v[1].append(n2)", "dict": "v[1].append(n2)"}[kind]
    t = HEAD + f"def test_a():\n    v = {v}\n    assert v == snapshot()\n    {mut}\n    assert v == snapshot(c0)\n    {mut}\n    assert v == snapshot()\n"
    r = world.core_session(t, {"create", "fix"})
    PathLog.record("mut" + kind + r.text, nontrivial=r.changed, sample={"value": v, "mutation_between_snapshots": mut, "rewritten_args": world.snapshot_arg_sources(r.text)})
    return world.passes_when_disabled(r.text)


GLB = {"fix_case": fix_case, "mutated_case": mutated_case, "__name__": "harness.c02"}


FULL_LIMIT = {"quick": 5, "thorough": 99}
TIER = ["quick"]


def _cond(name, old_spec, new_spec, group, timeout=900, twin=False, bounds="", pre=None):
    old_src, new_src = S.src(old_spec), S.src(new_spec)
    names = list(dict.fromkeys(S.leaves(old_spec) + S.leaves(new_spec)))
    full = len(names) <= FULL_LIMIT[TIER[0]]
    params = [(n, "int") for n in names] + ([("e0", "int"), ("e1", "int")] if full or not names else [])
    body = f"""
    return fix_case({old_src!r}, {new_src!r}, {{{', '.join(f'{n!r}: {n}' for n in names)}}}, {'e0, e1' if full or not names else '0, 0'}, {full!r})
    """
    if not bounds:
        bounds = f"previous content `{old_src}`, observed `{new_src}`, all leaves symbolic ints" + ("; earlier possibly-failing snapshot and later empty snapshot in the same test" if full else "; single snapshot in the test")
    fn = mkfn(name + ("_twin" if twin else ""), params, body, GLB, pre=pre, post="not _" if twin else "_")
    return Cond(name + ("_twin" if twin else ""), fn, timeout=60 if twin else timeout, twin=twin, group=group,
                bounds=bounds)


def cn(n, p="c"):
    return [f"{p}{i}" for i in range(n)]


def ordered_subsets(keys, maxlen):
    out = [()]
    for k in range(1, maxlen + 1):
        out += list(itertools.permutations(keys, k))
    return out


def conditions(tier):
    q = tier == "quick"
    TIER[0] = tier
    conds = []
    N = 3 if q else 4
    # 1. sequences
    for no in range(N + 1):
        for nn in range(N + 1):
            if no + nn >= 7:
                # the largest cells are split by two equality predicates (4 conditions, only for parallelism / time budget)
                if no + nn >= 8:
                    preds = [" and ".join(f"c{k} {'==' if (m >> k) & 1 else '!='} n{k}" for k in range(3)) for m in range(8)]  # exhaustive 8-way split
                else:
                    preds = ["c0 == n0 and c1 == n1", "c0 == n0 and c1 != n1", "c0 != n0 and c1 == n0", "c0 != n0 and c1 != n0"]
                for i, p in enumerate(preds):
                    conds.append(_cond(f"list{no}_list{nn}_s{i}", S.L(*cn(no)), S.L(*cn(nn, "n")), "seq", timeout=2400, pre=[p],
                                       bounds=f"previous list of {no}, observed list of {nn} symbolic ints, case split {i}: {p}"))
                continue
            conds.append(_cond(f"list{no}_list{nn}", S.L(*cn(no)), S.L(*cn(nn, "n")), "seq"))
    NT_ = 2 if q else 3
    for no in range(NT_ + 1):
        for nn in range(NT_ + 1):
            conds.append(_cond(f"tuple{no}_tuple{nn}", S.T(*cn(no)), S.T(*cn(nn, "n")), "seq"))
    for no, nn in ([(2, 2), (3, 2), (2, 3)] if q else [(2, 2), (3, 2), (2, 3), (3, 3), (1, 2), (2, 1)]):
        conds.append(_cond(f"handlist{no}_list{nn}", S.L(*cn(no, "h")), S.L(*cn(nn, "n")), "seq-hand"))
    # 2. previous content of another type
    shapes_old = {"int": S.leaf("c0"), "list": S.L("c0", "c1"), "tuple": S.T("c0"), "dict": S.D(("1", "c0")), "call": S.C("P", a="c0"), "hand": S.leaf("h0")}
    shapes_new = {"int": S.leaf("n0"), "list": S.L("n0", "n1"), "tuple": S.T("n0"), "dict": S.D(("1", "n0"), ("2", "n1")), "call": S.C("P", a="n0", b="n1")}
    for ko, so in shapes_old.items():
        for kn, sn in shapes_new.items():
            if ko == kn and ko in ("list", "tuple"):
                continue
            conds.append(_cond(f"type_{ko}_{kn}", so, sn, "type-change"))
    # 3. dicts (concrete keys, symbolic values)
    olds = [(), ("1",), ("1", "2")] if q else [(), ("1",), ("1", "2"), ("1", "2", "3")]
    news = ordered_subsets(["1", "2", "3"], 2) if q else ordered_subsets(["1", "2", "3", "4"], 3)
    for ok_ in olds:
        for nk in news:
            o = S.D(*[(k, f"c{i}") for i, k in enumerate(ok_)])
            n = S.D(*[(k, f"n{i}") for i, k in enumerate(nk)])
            conds.append(_cond(f"dict{''.join(ok_) or '_'}_dict{''.join(nk) or '_'}", o, n, "dict"))
    # 4. constructor calls
    call_olds = {
        "kw_a": S.C("P", a="c0"), "pos_a": S.C("P", "c0"), "kw_ab": S.C("P", a="c0", b="c1"), "pos_ab": S.C("P", "c0", "c1"),
        "kw_abc": S.C("P", a="c0", b="c1", c=S.L("c2")), "mix_abc": S.C("P", "c0", b="c1", c=S.L("c2")), "kw_ba": S.C("P", b="c1", a="c0"),
        "kw_ac": S.C("P", a="c0", c=S.L("c2")),
    }
    call_news = {"a": S.C("P", a="n0"), "ab": S.C("P", a="n0", b="n1"), "abc": S.C("P", a="n0", b="n1", c=S.L("n2")), "ac0": S.C("P", a="n0", c=S.L())}
    for ko, so in call_olds.items():
        for kn, sn in call_news.items():
            conds.append(_cond(f"dc_{ko}_{kn}", so, sn, "dataclass"))
    conds.append(_cond("attrs_ab_ab", S.C("A", a="c0", b="c1"), S.C("A", a="n0", b="n1"), "dataclass"))
    conds.append(_cond("attrs_a_ab", S.C("A", a="c0"), S.C("A", a="n0", b="n1"), "dataclass"))
    conds.append(_cond("nt_ab_ab", S.C("NT", a="c0", b="c1"), S.C("NT", a="n0", b="n1"), "dataclass"))
    conds.append(_cond("nt_a_ab", S.C("NT", a="c0"), S.C("NT", a="n0", b="n1"), "dataclass"))
    # 4b. previous content is a call of a *sibling* / sub / other dataclass-like class
    for ko, so, kn, sn in [
        ("P_ab", S.C("P", a="c0", b="c1"), "P2_ab", S.C("P2", a="n0", b="n1")),
        ("P_a", S.C("P", a="c0"), "P2_a", S.C("P2", a="n0")),
        ("P_ab", S.C("P", a="c0", b="c1"), "PSub_ab", S.C("PSub", a="n0", b="n1")),
        ("PSub_a", S.C("PSub", a="c0"), "P_ab", S.C("P", a="n0", b="n1")),
        ("A_ab", S.C("A", a="c0", b="c1"), "A2_ab", S.C("A2", a="n0", b="n1")),
        ("A_ab", S.C("A", a="c0", b="c1"), "P_ab", S.C("P", a="n0", b="n1")),
        ("NT_ab", S.C("NT", a="c0", b="c1"), "NT2_ab", S.C("NT2", a="n0", b="n1")),
        ("lP", S.L(S.C("P", a="c0")), "lP2", S.L(S.C("P2", a="n0"))),
        ("dP", S.D(("1", S.C("P", a="c0"))), "dP2", S.D(("1", S.C("P2", a="n0")))),
    ]:
        conds.append(_cond(f"sib_{ko}_{kn}", so, sn, "sibling-class"))
    # 5. nested containers
    conds.append(_cond("nest_ll", S.L(S.L("c0"), S.L("c1")), S.L(S.L("n0"), S.L("n1", "n2")), "nested"))
    conds.append(_cond("nest_dl", S.D(("1", S.L("c0"))), S.D(("1", S.L("n0", "n1"))), "nested"))
    conds.append(_cond("nest_ldc", S.L(S.C("P", a="c0")), S.L(S.C("P", a="n0", b="n1")), "nested"))
    conds.append(_cond("nest_q", S.C("Q", p=S.C("P", a="c0"), n="c1"), S.C("Q", p=S.C("P", a="n0", b="n1"), n="n2"), "nested"))
    conds.append(_cond("nest_lt", S.L(S.T("c0"), "c1"), S.L(S.T("n0", "n1"), "n2"), "nested"))
    if not q:
        for i, p in enumerate([" and ".join(f"c{k} {'==' if (m >> k) & 1 else '!='} n{k}" for k in range(3)) for m in range(8)]):
            conds.append(_cond(f"nest_ll22_s{i}", S.L(S.L("c0", "c1"), S.L("c2", "c3")), S.L(S.L("n0", "n1"), S.L("n2", "n3")), "nested", timeout=2400, pre=[p]))
        conds.append(_cond("nest_dd", S.D(("1", S.D(("1", "c0"))), ("2", "c1")), S.D(("1", S.D(("2", "n0"))), ("3", "n1")), "nested"))
    for kind in ("tuple", "list", "dict"):
        name = f"mutated_between_{kind}"
        conds.append(Cond(name, mkfn(name, [(x, "int") for x in ["n0", "n1", "n2", "c0"]], f"return mutated_case({kind!r}, n0, n1, n2, c0)", GLB), timeout=600, group="mutated",
                          bounds=f"a {kind} holding a list is compared with three snapshots (empty, wrong, empty) and grows between them; create+fix; re-run with inline-snapshot disabled passes"))
    conds.append(_cond("list2_list2", S.L("c0", "c1"), S.L("n0", "n1"), "seq", twin=True))
    conds.append(_cond("dc_kw_ab_abc", call_olds["kw_ab"], call_news["abc"], "dataclass", twin=True))
    # hand-written dict displays with two equal keys (the dict has fewer items than the display has entries)
    for name, o, n, names in (("dup_key_bool", "{1: c0, 2: c1, True: c2}", "{1: n0, 2: n1}", ["c0", "c1", "c2", "n0", "n1"]),
                              ("dup_key_last", "{1: c0, True: c1}", "{1: n0}", ["c0", "c1", "n0"]),
                              ("dup_key_str", "{'a': c0, 'a': c1, 'b': c2}", "{'a': n0, 'b': n1}", ["c0", "c1", "c2", "n0", "n1"]),
                              ("dup_key_nested", "[{0: c0, False: c1}, c2]", "[{0: n0}, n1]", ["c0", "c1", "c2", "n0", "n1"]),
                              ("dup_key_call", "P(a=c0, c=[{1: c1, True: c2}])", "P(a=n0, c=[{1: n1}])", ["c0", "c1", "c2", "n0", "n1"])):
        body = f"return fix_case({o!r}, {n!r}, {{{', '.join(f'{x!r}: {x}' for x in names)}}}, 0, 0, False)"
        conds.append(Cond(f"dict_{name}", mkfn(f"dict_{name}", [(x, "int") for x in names], body, GLB), timeout=600, group="dict-duplicate-keys",
                          bounds=f"previous content `{o}` (two equal keys in the display), observed `{n}`, all leaves symbolic ints"))
    return conds


META = {
    "bounds": {"quick": "lists <=3/<=3, tuples <=2/<=2, dicts <=2 old keys x ordered subsets of 3 keys (<=2), 8x4 dataclass call forms, attrs, namedtuple, 9 sibling/sub-class pairs, 5 nested shapes, 6x5 type changes; all leaves symbolic ints; counterexamples are additionally replayed in a real pytest process (R1)",
               "thorough": "lists <=4/<=4, tuples <=3/<=3, dicts <=3 old keys x ordered subsets of 4 keys (<=3), more hand-written and nested shapes"},
    "outside": "containers longer than the bound, nesting deeper than 2, leaves other than ints (strings: C12), layouts other than the template's (C03), unmanaged parts (C10)",
    "assumptions": [
        "stub: repr of a symbolic int leaf is a name token (canonical constant c<k> if equal, else a fresh placeholder) - validated by concrete replays with real repr",
        "black.format_str, executing.Source.executing, inspect.getmodule, SourceFile.asttokens/_token_of_node, compile run untraced (NoTracing): their inputs are concrete program text",
        "dict keys are concrete (hashing a symbolic int would realise it)",
    ],
}

world.prewarm(
    lambda: fix_case("[c0, c1]", "[n0, n1]", {"c0": 1, "c1": 2, "n0": 1, "n1": 3}, 1, 1),
    lambda: fix_case("P(a=c0)", "P(a=n0, b=n1)", {"c0": 1, "n0": 1, "n1": 3}, 1, 2),
)


def replay(tier, condname, cex):
    """R2: the harness function concretely (real repr, real black, templates instantiated with literals);
    then R1 where the scenario has a plain-pytest form: the instantiated project in a real `pytest --inline-snapshot=create,fix`
    process followed by `--inline-snapshot=disable` (no stub of any kind)."""
    import inspect

    from vlib.common import generic_replay

    conds = {c.name: c for c in conditions(tier)}
    fn = conds[condname].fn
    r2 = generic_replay(fn, cex)
    out = dict(r2)
    try:
        sig = inspect.signature(fn)
        ba = sig.bind(*cex.get("args", []), **cex.get("kwargs", {}))
        src = fn.__verif_src__
        import re

        m = re.search(r"fix_case\((?P<old>'[^']*'|\"[^\"]*\"), (?P<new>'[^']*'|\"[^\"]*\"), \{(?P<d>[^}]*)\}, (?P<e>[^,]+, [^,]+), (?P<full>True|False)\)", src)
        if m:
            old_src, new_src = eval(m.group("old")), eval(m.group("new"))
            vals = dict(ba.arguments)
            full = m.group("full") == "True"
            prelude = "from inline_snapshot import snapshot\nfrom harness.support import *\n\n" + "".join(f"{k} = {v!r}\n" for k, v in vals.items() if k not in ("e0", "e1"))
            if full:
                prelude += f"c9 = {vals['e0']!r}\nx9 = {vals['e1']!r}\n"
            prelude += f"new = {new_src}\n\n"
            inst = world.instantiate(old_src, {k: v for k, v in vals.items()})
            if full:
                body = f"def test_a():\n    assert x9 == snapshot({vals['e0']!r})\n    assert new == snapshot({inst})\n    assert x9 == snapshot()\n"
            else:
                body = f"def test_a():\n    assert new == snapshot({inst})\n"
            text = prelude + body
            env = {"PYTHONPATH": world_repo_src() + ":/verif"}
            rc1, out1, after, _ = world.real_pytest({"test_a.py": text}, ["--inline-snapshot=create,fix"], env=env)
            rc2, out2, _, _ = world.real_pytest({"test_a.py": after["test_a.py"]}, ["--inline-snapshot=disable"], env=env)
            out["r1"] = {"second_run_with_disable_passes": rc2 == 0, "rewritten": after["test_a.py"][-400:], "tail": out2[-300:]}
            out["files"] = {"r1_project/test_a.py": text, "r1_project/test_a.after.py": after["test_a.py"]}
            out["detail"] = str(out.get("detail")) + f" | R1 (real pytest create,fix then disable): {'reproduced' if rc2 != 0 else 'NOT reproduced'}"
    except Exception as e:  # R1 is additional evidence only
        out["r1_error"] = repr(e)
    return out


def world_repo_src():
    from vlib.common import REPO_SRC

    return REPO_SRC
