"""C02 - approving create and fix repairs every reached snapshot in a single run (D-core driver)."""
from __future__ import annotations

from vlib import world
from vlib.common import Cond, PathLog, mkfn
from vlib.world import W

ID = "C02"
world.install_shims()

HEAD = "from inline_snapshot import snapshot\n\n"


def names(prefix, n):
    return [f"{prefix}{i}" for i in range(n)]


def lst(ns_):
    return "[" + ", ".join(ns_) + "]"


def tup(ns_):
    if len(ns_) == 1:
        return f"({ns_[0]},)"
    return "(" + ", ".join(ns_) + ")"


def passes_disabled(text, comparisons, ns):
    """Re-execute the recorded comparisons against the values read back from the rewritten text."""
    vals = world.snapshot_values(text)
    for idx, op, x in comparisons:
        v = vals[idx]
        if v is world.MISSING:
            return False
        if op == "==":
            if not (x == v):
                return False
        elif op == "<=":
            if not (x <= v):
                return False
        elif op == ">=":
            if not (x >= v):
                return False
        elif op == "in":
            if not (x in v):
                return False
        elif op == "[]":
            k, xv = x
            if k not in v or not (v[k] == xv):
                return False
    return True


# --- family 1: sequence -> sequence ------------------------------------------------------------

def seq_fix(kind_old, n_old, kind_new, n_new, hand, vals_old, vals_new, extra):
    """An earlier failing snapshot (x9 == snapshot(c9)), then the container snapshot, then an empty one."""
    onames = names("h" if hand else "c", n_old)
    ns = {}
    for n_, v in zip(onames, vals_old):
        ns[n_] = v
    ns["c9"] = extra[0]
    ns["x9"] = extra[1]
    new = list(vals_new) if kind_new == "list" else tuple(vals_new)
    ns["new"] = new
    old_src = lst(onames) if kind_old == "list" else tup(onames)
    t = HEAD + f"def test_a():\n    assert x9 == snapshot(c9)\n    assert new == snapshot({old_src})\n    assert x9 == snapshot()\n"
    world.reset(ns)
    r = world.core_session(t, {"create", "fix"})
    ok = passes_disabled(r.text, [(0, "==", ns["x9"]), (1, "==", new), (2, "==", ns["x9"])], ns)
    import ast
    ast.parse(r.text)
    PathLog.record(r.text, nontrivial=r.changed, sample={"old": old_src, "new_len": n_new, "rewritten": world.snapshot_arg_sources(r.text)})
    return ok


GLB = {"seq_fix": seq_fix, "__name__": "harness.c02"}


def _seq_cond(kind_old, n_old, kind_new, n_new, hand=False, twin=False):
    params = [(f"o{i}", "int") for i in range(n_old)] + [(f"n{i}", "int") for i in range(n_new)] + [("e0", "int"), ("e1", "int")]
    body = f"""
    return seq_fix({kind_old!r}, {n_old}, {kind_new!r}, {n_new}, {hand!r}, [{', '.join(f'o{i}' for i in range(n_old))}], [{', '.join(f'n{i}' for i in range(n_new))}], [e0, e1])
    """
    name = f"seq_{kind_old}{n_old}_{kind_new}{n_new}" + ("_hand" if hand else "") + ("_twin" if twin else "")
    fn = mkfn(name, params, body, GLB, post="not _" if twin else "_")
    return Cond(name, fn, timeout=60 if twin else 900, twin=twin, group="seq",
                bounds=f"previous {kind_old} of {n_old} {'hand-written' if hand else 'canonical'} int elements, observed {kind_new} of {n_new} ints; earlier failing == snapshot and later empty snapshot in the same test")


def conditions(tier):
    N = 2 if tier == "quick" else 3
    conds = []
    for n_old in range(N + 1):
        for n_new in range(N + 1):
            conds.append(_seq_cond("list", n_old, "list", n_new))
    conds.append(_seq_cond("list", 2, "list", 2, twin=True))
    return conds


META = {"bounds": {"quick": "n<=2", "thorough": "n<=3"}, "assumptions": []}

# pre-warm caches with one concrete run (executing / asttokens / black), in concrete mode
W.concrete = True
try:
    seq_fix("list", 2, "list", 2, False, [1, 2], [1, 3], [1, 1])
finally:
    W.concrete = False
