"""C03 (b) - text level: the real pipeline on adversarial layouts; everything outside the snapshot() arguments is
preserved byte for byte (file not formatter-clean) or as an identical syntax tree (file formatter-clean)."""
from __future__ import annotations

import ast
import os

from vlib import world
from vlib.common import Cond, PathLog, mkfn
from vlib.world import W

world.install_shims()

TEMPLATES = {
    # formatter-clean file: whole-file formatting applies
    "clean": (
        "from inline_snapshot import snapshot\n\n\ndef test_a():\n    assert xs == snapshot([c0, c1])\n    assert x0 <= snapshot(c2)\n"
        "    assert k0 == snapshot(c3)  # untouched\n"
    ),
    "unicode_tabs_oneline": (
        "from inline_snapshot import snapshot\n\ndef test_a():\n"
        "\tä = 'äöü€\U0001F600'; assert xs == snapshot([c0, c1]); assert x0 <= snapshot(c2)   # ünïcödé ✓\n"
        "\tassert k0 == snapshot( c3 )   \n"
    ),
    "multiline_comments": (
        "from inline_snapshot import snapshot\n\ndef test_a():\n    assert xs == snapshot([\n        c0,  # first\n        # only a comment\n        c1\n    ])\n"
        "    assert x0 <= snapshot(\n        c2  # bound\n    )\n    assert k0 == snapshot(c3 ,)\n"
    ),
    "odd_spacing": (
        "from inline_snapshot import snapshot\nimport os  ,  sys\n\ndef test_a( ):\n  assert xs==snapshot( [c0 ,c1 ] ) ;  y = {  'snapshot(' : \"snapshot([1])\" }\n"
        "  assert x0<=snapshot (c2)\n  assert k0 == snapshot(c3)\n\n\n\n# trailing comment without newline"
    ),
    "continuation_nested": (
        "from inline_snapshot import snapshot\n\nclass TestX:\n    @staticmethod\n    def helper(v, s):\n        assert v == \\\n            s\n\n"
        "def test_a():\n    def inner():\n        return snapshot([c0, c1])\n    TestX.helper(xs, inner())\n    assert x0 <= \\\n        snapshot(c2)\n    f = lambda: snapshot(c3)\n    assert k0 == f()\n"
    ),
    "tuple_dict": (
        "from inline_snapshot import snapshot\n\ndef test_a():\n    assert tuple(xs) == snapshot((c0, c1,))\n    assert x0 <= snapshot(c2)\n"
        "    assert {1: k0, 2: x0} == snapshot({1: c3,\n\n   2: c2})   # dict\n"
    ),
    "crlf": (
        "from inline_snapshot import snapshot\r\n\r\ndef test_a():\r\n    assert xs == snapshot([c0, c1])  \r\n    assert x0 <= snapshot(c2)\r\n    assert k0 == snapshot(c3)\r\n"
    ),
    "formfeed_semicolons": (
        "from inline_snapshot import snapshot\n\x0c\ndef test_a():\n    a = 1; b = 2;\n    assert xs == snapshot([c0, c1]); assert x0 <= snapshot(c2); assert k0 == snapshot(c3);\n"
    ),
}


def is_clean(text, path):
    import inline_snapshot._format as FM

    with world.NoTracing():
        return FM.format_code(str(text), path) == str(text)


def layout_case(tname, n_new, approved, leafvals):
    ns = dict(leafvals)
    xs = [leafvals[f"y{i}"] for i in range(n_new)]
    ns["xs"] = xs
    ns["k0"] = leafvals["c3"]
    world.reset(ns)
    t = TEMPLATES[tname]
    r = world.core_session(t, approved)
    old, new = r.text_before, r.text
    with world.NoTracing():
        old_s, new_s = str(old), str(new)
        try:
            ast.parse(new_s)
        except SyntaxError:
            PathLog.record("syntaxerror" + new_s, sample={"template": tname, "new": new_s})
            return False
        clean = is_clean(old_s, r.path)
        m_old, m_new = world.mask_snapshot_args(old_s), world.mask_snapshot_args(new_s)
        if clean:
            same = ast.dump(ast.parse(m_old)) == ast.dump(ast.parse(m_new))
        else:
            same = m_old == m_new
        # the untouched snapshot (third one / the one holding c3) keeps its argument text
        a_old, a_new = world.snapshot_arg_sources(old_s), world.snapshot_arg_sources(new_s)
        PathLog.record(tname + new_s, nontrivial=old_s != new_s, sample={"template": tname, "approved": sorted(approved), "formatter_clean": clean, "args_before": a_old, "args_after": a_new})
        if not same:
            return False
    if "fix" in approved and "trim" in approved:
        # the edit is also still *right* in this layout
        if not world.passes_when_disabled(new):
            return False
    return True


GLB = {"layout_case": layout_case, "__name__": "harness.c03b"}


def conditions(tier):
    q = tier == "quick"
    conds = []
    active_kf = set(filter(None, os.environ.get("VERIF_KF_ACTIVE", "").split(",")))
    subsets = [{"fix"}, {"fix", "trim"}, {"trim"}] if q else [{"fix"}, {"fix", "trim"}, {"trim"}, {"create", "fix", "trim", "update"}, set()]
    for tname in TEMPLATES:
        if tname == "crlf" and "C03-crlf" in active_kf:
            continue  # known finding: region = this template (any values); its witness is replayed by the runner
        for n_new in (1, 2, 3) if not q else (1, 2):
            for sub in subsets:
                names = ["c0", "c1", "c2", "c3", "x0"] + [f"y{i}" for i in range(n_new)]
                body = f"return layout_case({tname!r}, {n_new}, {sub!r}, {{{', '.join(f'{n!r}: {n}' for n in names)}}})"
                name = f"layout_{tname}_n{n_new}_{''.join(sorted(c[0] for c in sub)) or 'none'}"
                conds.append(Cond(name, mkfn(name, [(n, "int") for n in names], body, GLB), timeout=600, group="layout-" + tname,
                                  bounds=f"template `{tname}` (fixed layout), list [c0, c1] vs {n_new} observed ints, bound c2 vs x0, approved {sorted(sub)}; all values symbolic"))
    body = "return layout_case('multiline_comments', 3, {'fix'}, {'c0': c0, 'c1': c1, 'c2': c2, 'c3': c3, 'x0': x0, 'y0': y0, 'y1': y1, 'y2': y2})"
    conds.append(Cond("layout_twin", mkfn("layout_twin", [(n, "int") for n in ["c0", "c1", "c2", "c3", "x0", "y0", "y1", "y2"]], body, GLB, post="not _"), timeout=60, twin=True))
    return conds


world.prewarm(
    lambda: layout_case("clean", 3, {"fix", "trim"}, {"c0": 1, "c1": 2, "c2": 9, "c3": 4, "x0": 3, "y0": 1, "y1": 5, "y2": 2}),
    lambda: layout_case("odd_spacing", 1, {"fix", "trim"}, {"c0": 1, "c1": 2, "c2": 9, "c3": 4, "x0": 3, "y0": 7}),
)
