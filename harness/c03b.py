"""C03 (b) - text level: the real pipeline on adversarial layouts; everything outside the snapshot() arguments is
preserved byte for byte (file not formatter-clean) or as an identical syntax tree (file formatter-clean)."""
from __future__ import annotations

import ast
import os

from vlib import world
from vlib.common import Cond, PathLog, mkfn
from vlib.world import W

world.install_shims()

TEMPLATES = {
    # formatter-clean file: whole-file formatting applies
    "clean": (
        "from inline_snapshot import snapshot\n\n\ndef test_a():\n    assert xs == snapshot([c0, c1])\n    assert x0 <= snapshot(c2)\n"
        "    assert k0 == snapshot(c3)  # untouched\n"
    ),
    "unicode_tabs_oneline": (
        "from inline_snapshot import snapshot\n\ndef test_a():\n"
        "\tä = 'äöü€\U0001F600'; assert xs == snapshot([c0, c1]); assert x0 <= snapshot(c2)   # ünïcödé ✓\n"
        "\tassert k0 == snapshot( c3 )   \n"
    ),
    "multiline_comments": (
        "from inline_snapshot import snapshot\n\ndef test_a():\n    assert xs == snapshot([\n        c0,  # first\n        # only a comment\n        c1\n    ])\n"
        "    assert x0 <= snapshot(\n        c2  # bound\n    )\n    assert k0 == snapshot(c3 ,)\n"
    ),
    "odd_spacing": (
        "from inline_snapshot import snapshot\nimport os  ,  sys\n\ndef test_a( ):\n  assert xs==snapshot( [c0 ,c1 ] ) ;  y = {  'snapshot(' : \"snapshot([1])\" }\n"
        "  assert x0<=snapshot (c2)\n  assert k0 == snapshot(c3)\n\n\n\n# trailing comment without newline"
    ),
    "continuation_nested": (
        "from inline_snapshot import snapshot\n\nclass TestX:\n    @staticmethod\n    def helper(v, s):\n        assert v == \\\n            s\n\n"
        "def test_a():\n    def inner():\n        return snapshot([c0, c1])\n    TestX.helper(xs, inner())\n    assert x0 <= \\\n        snapshot(c2)\n    f = lambda: snapshot(c3)\n    assert k0 == f()\n"
    ),
    "tuple_dict": (
        "from inline_snapshot import snapshot\n\ndef test_a():\n    assert tuple(xs) == snapshot((c0, c1,))\n    assert x0 <= snapshot(c2)\n"
        "    assert {1: k0, 2: x0} == snapshot({1: c3,\n\n   2: c2})   # dict\n"
    ),
    "parenthesized": (
        "from inline_snapshot import snapshot\n\ndef test_a():\n    assert xs == snapshot([(c0), ((c1))])\n    assert x0 <= snapshot((c2))\n"
        "    assert {1: k0, 2: x0} == snapshot({(1): (c3), 2: (c2), (3): (4)})   # dict\n"
    ),
    "crlf": (
        "from inline_snapshot import snapshot\r\n\r\ndef test_a():\r\n    assert xs == snapshot([c0, c1])  \r\n    assert x0 <= snapshot(c2)\r\n    assert k0 == snapshot(c3)\r\n"
    ),
    "bom_first_line": (
        "\ufefffrom inline_snapshot import snapshot; s0 = snapshot([c0, c1])  # first line\n\ndef test_a():\n    assert xs == s0\n    assert x0 <= snapshot(c2)\n    assert k0 == snapshot(c3)\n"
    ),
    "formfeed_semicolons": (
        "from inline_snapshot import snapshot\n\x0c\ndef test_a():\n    a = 1; b = 2;\n    assert xs == snapshot([c0, c1]); assert x0 <= snapshot(c2); assert k0 == snapshot(c3);\n"
    ),
}


def is_clean(text, path):
    import inline_snapshot._format as FM

    with world.NoTracing():
        return FM.format_code(str(text), path) == str(text)


def layout_case(tname, n_new, approved, leafvals):
    ns = dict(leafvals)
    xs = [leafvals[f"y{i}"] for i in range(n_new)]
    ns["xs"] = xs
    ns["k0"] = leafvals["c3"]
    world.reset(ns)
    t = TEMPLATES[tname]
    if tname in ("crlf", "bom_first_line"):
        # line endings are a property of the bytes on disk: this layout goes through the real hooks and the real write
        world.install_plugin_shims()
        pr = world.plugin_session({"test_a.py": t}, cli=",".join(sorted(approved)) if approved else "report")
        if pr.finish_error is not None:
            return False
        with world.NoTracing():
            old = str(pr.texts["test_a.py"])
            new = (pr.root / "test_a.py").read_bytes().decode("utf-8")  # undecoded newlines

        class _R:
            text_before, text, path = old, new, pr.root / "test_a.py"

        r = _R
    else:
        r = world.core_session(t, approved)
    old, new = r.text_before, r.text
    with world.NoTracing():
        old_s, new_s = str(old), str(new)
        if old_s.startswith("\ufeff"):
            # the byte order mark is kept; it is no part of the code that the oracles below parse
            if not new_s.startswith("\ufeff"):
                return False
            old_s, new_s = old_s[1:], new_s[1:]
            old, new = old_s, new_s
        try:
            ast.parse(new_s)
        except SyntaxError:
            PathLog.record("syntaxerror" + new_s, sample={"template": tname, "new": new_s})
            return False
        clean = is_clean(old_s, r.path)
        m_old, m_new = world.mask_snapshot_args(old_s), world.mask_snapshot_args(new_s)
        if clean:
            same = ast.dump(ast.parse(m_old)) == ast.dump(ast.parse(m_new))
        else:
            same = m_old == m_new
        # the untouched snapshot (third one / the one holding c3) keeps its argument text
        a_old, a_new = world.snapshot_arg_sources(old_s), world.snapshot_arg_sources(new_s)
        PathLog.record(tname + new_s, nontrivial=old_s != new_s, sample={"template": tname, "approved": sorted(approved), "formatter_clean": clean, "args_before": a_old, "args_after": a_new})
        if not same:
            return False
    if "fix" in approved and "trim" in approved:
        # the edit is also still *right* in this layout
        if not world.passes_when_disabled(new):
            return False
    return True


IMPORT_FILES = {
    # the kind of change decides the order in which the session handles the files (grouped changes are applied last)
    "needs_create": "from inline_snapshot import snapshot\n\ndef test_n():\n    assert [x0, odd] == snapshot()\n",
    "needs_replace": "from inline_snapshot import snapshot\n\ndef test_n():\n    assert [x0, odd] == snapshot(c0)\n",
    "plain_replace": "from inline_snapshot import snapshot\n\ndef test_p():\n    assert x1 == snapshot(c0)\n",
    "plain_create": "from inline_snapshot import snapshot\n\ndef test_p():\n    assert x1 == snapshot()\n",
}


DOC_FILES = {
    "docstring_future": '"""module doc"""\nfrom __future__ import annotations\nfrom inline_snapshot import snapshot\n\ndef test_n():\n    assert [x0, odd] == snapshot()\n',
    "docstring_code": '"""module doc"""\n\nx = 1\nfrom inline_snapshot import snapshot\n\ndef test_n():\n    assert [x0, odd] == snapshot()\n',
    "comment_docstring_local_import": '# comment\n"""module doc"""\n\ndef test_n():\n    from inline_snapshot import snapshot\n    assert [x0, odd] == snapshot()\n',
    "imports_then_code": 'import os\nfrom inline_snapshot import snapshot  # trailing\nimport sys; y = 2\n\ndef test_n():\n    assert [x0, odd] == snapshot()\n',
}


def import_position_case(fname, leafvals):
    """the inserted import keeps the file valid (it compiles, the module docstring stays the docstring, __future__ imports
    stay first) and is the only edit outside the snapshot arguments"""
    import ast as _ast

    from harness.support import Weird

    world.install_plugin_shims()
    ns = dict(leafvals)
    ns["odd"] = Weird(1)
    world.reset(ns)
    r = world.plugin_session({"test_1.py": DOC_FILES[fname]}, cli="create")
    if r.finish_error is not None:
        return False
    with world.NoTracing():
        before, after = str(r.texts["test_1.py"]), str(world.text_after(r, "test_1.py"))
        PathLog.record("importpos" + fname + after, nontrivial=True, sample={"file": fname, "rewritten_head": after[:200]})
        try:
            compile(after, "test_1.py", "exec")
        except SyntaxError:
            return False
        if _ast.get_docstring(_ast.parse(after)) != _ast.get_docstring(_ast.parse(before)):
            return False
        if after.count("from inline_snapshot import HasRepr") != 1:
            return False
        return world.mask_snapshot_args(after.replace("\nfrom inline_snapshot import HasRepr\n", "", 1)) == world.mask_snapshot_args(before)


HAS_IMPORT_FILES = {
    # the name the new code needs is already imported - somewhere
    "late_after_statement": 'import sys\nsys.path.insert(0, ".")\nfrom inline_snapshot import snapshot, HasRepr\n\ndef test_n():\n    assert [x0, odd] == snapshot([c0, HasRepr(Weird, "<Weird 1>")])\n',
    "late_own_line": 'from inline_snapshot import snapshot\nimport pytest\n\npytest.importorskip("os")\nfrom inline_snapshot import HasRepr\n\ndef test_n():\n    assert [x0, odd] == snapshot([c0, HasRepr(Weird, "<Weird 1>")])\n',
    "after_docstring_and_code": '"""doc"""\nX = 1\nfrom inline_snapshot import snapshot\nfrom inline_snapshot import HasRepr\n\ndef test_n():\n    assert [x0, odd] == snapshot([c0, HasRepr(Weird, "<Weird 1>")])\n',
    "first_block": 'from inline_snapshot import snapshot\nfrom inline_snapshot import HasRepr\n\ndef test_n():\n    assert [x0, odd] == snapshot([c0, HasRepr(Weird, "<Weird 1>")])\n',
    "late_and_new_hasrepr": 'import sys\nY = 2\nfrom inline_snapshot import snapshot, HasRepr\n\ndef test_n():\n    assert [x0, odd, odd] == snapshot([c0, HasRepr(Weird, "<Weird 1>")])\n',
}


def has_import_case(fname, leafvals):
    """a file that already imports the name its snapshots use gets no further import, wherever that import is written:
    the only edit is inside the snapshot arguments"""
    from harness.support import Weird

    world.install_plugin_shims()
    ns = dict(leafvals)
    ns["odd"] = Weird(1)
    ns["Weird"] = Weird
    world.reset(ns)
    r = world.plugin_session({"test_1.py": HAS_IMPORT_FILES[fname]}, cli="fix")
    if r.finish_error is not None:
        return False
    with world.NoTracing():
        before, after = str(r.texts["test_1.py"]), str(world.text_after(r, "test_1.py"))
        PathLog.record("hasimport" + fname + after, nontrivial=before != after, sample={"file": fname, "rewritten": after[:260]})
        try:
            compile(after, "test_1.py", "exec")
        except SyntaxError:
            return False
        return world.mask_snapshot_args(after) == world.mask_snapshot_args(before)


def import_case(order, leafvals):
    """a session that rewrites several files: the file whose new code needs `HasRepr` gets exactly that import line, a file
    that needs nothing is untouched outside its snapshot arguments (whatever the order of the files)"""
    from harness.support import Weird

    world.install_plugin_shims()
    ns = dict(leafvals)
    ns["odd"] = Weird(1)
    world.reset(ns)
    names = ["test_1.py", "test_2.py"]
    kinds = [["needs_create", "plain_replace"], ["plain_replace", "needs_create"], ["needs_replace", "plain_create"], ["plain_create", "needs_replace"],
             ["needs_create", "plain_create"], ["needs_replace", "plain_replace"]][order]
    files = {n: IMPORT_FILES[k] for n, k in zip(names, kinds)}
    r = world.plugin_session(files, cli="create,fix")
    if r.finish_error is not None:
        return False
    ok = True
    with world.NoTracing():
        for n, k in zip(names, kinds):
            before, after = str(r.texts[n]), str(world.text_after(r, n))
            if k.startswith("plain"):
                if world.mask_snapshot_args(before) != world.mask_snapshot_args(after):
                    ok = False
            else:
                if after.count("from inline_snapshot import HasRepr") != 1:
                    ok = False
                if world.mask_snapshot_args(after.replace("\nfrom inline_snapshot import HasRepr\n", "", 1)) != world.mask_snapshot_args(before):
                    ok = False
        PathLog.record("imports" + str(kinds) + str(sorted(r.written)), nontrivial=True, sample={"files": kinds, "rewritten": {n: world.text_after(r, n)[:120] for n in names}})
    return ok


GLB = {"has_import_case": has_import_case, "layout_case": layout_case, "import_case": import_case, "import_position_case": import_position_case, "__name__": "harness.c03b"}


def conditions(tier):
    q = tier == "quick"
    conds = []
    active_kf = set(filter(None, os.environ.get("VERIF_KF_ACTIVE", "").split(",")))
    subsets = [{"fix"}, {"fix", "trim"}, {"trim"}] if q else [{"fix"}, {"fix", "trim"}, {"trim"}, {"create", "fix", "trim", "update"}, set()]
    for tname in TEMPLATES:
        if tname == "crlf" and "C03-crlf" in active_kf:
            continue  # known finding: region = this template (any values); its witness is replayed by the runner
        for n_new in (1, 2, 3) if not q else (1, 2):
            for sub in subsets:
                names = ["c0", "c1", "c2", "c3", "x0"] + [f"y{i}" for i in range(n_new)]
                body = f"return layout_case({tname!r}, {n_new}, {sub!r}, {{{', '.join(f'{n!r}: {n}' for n in names)}}})"
                name = f"layout_{tname}_n{n_new}_{''.join(sorted(c[0] for c in sub)) or 'none'}"
                conds.append(Cond(name, mkfn(name, [(n, "int") for n in names], body, GLB), timeout=600, group="layout-" + tname,
                                  bounds=f"template `{tname}` (fixed layout), list [c0, c1] vs {n_new} observed ints, bound c2 vs x0, approved {sorted(sub)}; all values symbolic"))
    for fname in DOC_FILES:
        name = f"import_position_{fname}"
        conds.append(Cond(name, mkfn(name, [("x0", "int")], f"return import_position_case({fname!r}, {{'x0': x0}})", GLB), timeout=600, group="imports",
                          bounds=f"file layout `{fname}`: the HasRepr import is inserted; the file compiles, keeps its docstring, nothing else changes"))
    for fname in HAS_IMPORT_FILES:
        name = f"import_present_{fname}"
        conds.append(Cond(name, mkfn(name, [("x0", "int"), ("c0", "int")], f"return has_import_case({fname!r}, {{'x0': x0, 'c0': c0}})", GLB), timeout=600, group="imports",
                          bounds=f"file layout `{fname}`: HasRepr is already imported (possibly after other statements); a value is fixed; no import is added, nothing outside the arguments changes"))
    for order in range(6):
        name = f"imports_{order}"
        conds.append(Cond(name, mkfn(name, [("x0", "int"), ("x1", "int"), ("c0", "int")], f"return import_case({order}, {{'x0': x0, 'x1': x1, 'c0': c0}})", GLB), timeout=600, group="imports",
                          bounds="two files rewritten in one real session (plugin hooks): one needs the HasRepr import, the other needs nothing; 6 combinations of file order and change kind (create = grouped call argument, fix = immediate replace)"))
    body = "return layout_case('multiline_comments', 3, {'fix'}, {'c0': c0, 'c1': c1, 'c2': c2, 'c3': c3, 'x0': x0, 'y0': y0, 'y1': y1, 'y2': y2})"
    conds.append(Cond("layout_twin", mkfn("layout_twin", [(n, "int") for n in ["c0", "c1", "c2", "c3", "x0", "y0", "y1", "y2"]], body, GLB, post="not _"), timeout=60, twin=True))
    return conds


world.prewarm(
    lambda: layout_case("clean", 3, {"fix", "trim"}, {"c0": 1, "c1": 2, "c2": 9, "c3": 4, "x0": 3, "y0": 1, "y1": 5, "y2": 2}),
    lambda: layout_case("odd_spacing", 1, {"fix", "trim"}, {"c0": 1, "c1": 2, "c2": 9, "c3": 4, "x0": 3, "y0": 7}),
)
