"""C06 - without approval, snapshot(x) behaves like x.

D-core with no category flag: the recorded result of every comparison against snapshot(v) must equal the result of
the same comparison against the plain value v, for all values (solver-decided).  Disabled state: snapshot(v) is v.
"""
from __future__ import annotations

from harness.support import SUPPORT_NS
from inline_snapshot import Is
from inline_snapshot._global_state import snapshot_env
from vlib import world
from vlib.common import Cond, PathLog, mkfn
from vlib.world import W

ID = "C06"
world.install_shims()
HEAD = "from inline_snapshot import snapshot, Is\n\n"

# comparison forms; {s} = the snapshot object, {x} = observed value expression
FORMS = {
    "eq": ["{x} == {s}", "{s} == {x}"],
    "le": ["{x} <= {s}", "{s} >= {x}"],
    "ge": ["{x} >= {s}", "{s} <= {x}"],
    "in": ["{x} in {s}"],
}


def behaves_like(old_src, forms, xs_src, leafvals, loop=False):
    """forms: list of comparison templates, one per observation."""
    ns = dict(SUPPORT_NS)
    ns.update(leafvals)
    ns["Is"] = Is
    ns["res"] = []
    world.reset(ns)
    lines = []
    if loop:
        # the call site is re-evaluated for every observation
        for f, x in zip(forms, xs_src):
            lines.append("    for _ in (0,):\n        pass")
        body = "    for i, x in enumerate(obs):\n        res.append(" + forms[0].format(x="x", s=f"snapshot({old_src})") + ")\n"
        W.ns["obs"] = [eval(x, dict(W.ns)) for x in xs_src]
    else:
        body = f"    s = snapshot({old_src})\n" + "".join("    res.append(" + f.format(x=x, s="s") + ")\n" for f, x in zip(forms, xs_src))
    t = HEAD + "def test_a():\n" + body
    r = world.core_session(t, set(), collect=False)  # comparison results only; end-of-session processing is C18
    if r.outcomes.get("test_a") != "passed":
        return False
    plain_ns = dict(W.ns)
    plain_ns["snapshot"] = lambda v: v
    plain = eval(old_src, plain_ns)
    want = []
    for f, x in zip(forms, xs_src):
        if loop:
            f = forms[0]
        plain_ns["s"] = plain
        want.append(eval(f.format(x=x, s="s"), plain_ns))
    got = r.ns["res"]
    PathLog.record(f"{old_src}|{forms}|{[bool(b) for b in got]}", nontrivial=True,
                   sample={"snapshot": old_src, "comparisons": [f.format(x=x, s='s') for f, x in zip(forms, xs_src)], "results": [bool(b) for b in got]})
    if len(got) != len(want):
        return False
    for a, b in zip(got, want):
        if bool(a) != bool(b):
            return False
    return True


def getitem_like(old_keys, keys, leafvals):
    ns = dict(SUPPORT_NS)
    ns.update(leafvals)
    ns["res"] = []
    world.reset(ns)
    old_src = "{" + ", ".join(f"{k}: c{i}" for i, k in enumerate(old_keys)) + "}"
    body = f"    s = snapshot({old_src})\n" + "".join(f"    res.append(s[{k}] == x{i})\n" for i, k in enumerate(keys))
    r = world.core_session(HEAD + "def test_a():\n" + body, set(), collect=False)
    if r.outcomes.get("test_a") != "passed":
        return False
    plain = eval(old_src, dict(W.ns))
    want = [plain[k] == leafvals[f"x{i}"] for i, k in enumerate(keys)]
    got = r.ns["res"]
    PathLog.record(f"gi{old_keys}{keys}{[bool(b) for b in got]}", nontrivial=True, sample={"snapshot": old_src, "accessed": list(keys), "results": [bool(b) for b in got]})
    return [bool(b) for b in got] == [bool(b) for b in want]


def disabled_identity(x0, x1):
    """state().active == False: snapshot(v) returns v itself (identity), for every v."""
    from inline_snapshot import snapshot

    v = [x0, {1: x1}]
    with snapshot_env() as st:
        st.active = False
        r = snapshot(v)
        ok = r is v
        w = snapshot(x0)
        ok = ok and (w is x0)
    return ok


DIS_FILE = "from inline_snapshot import snapshot\n\n\ndef test_0():\n    out.append(('t0', snapshot(v) is v))\n\n\ndef test_1():\n    out.append(('t1', snapshot(v) is v))\n    out.append(('t1', type(snapshot(w)) is int))\n    out.append(('t1', w == snapshot(c0)))\n\n\ndef test_2():\n    out.append(('t2', snapshot(v) is v))\n"


def disabled_route_case(route, ci_idx, xfail_mask, w, c0):
    """a session that is disabled (route 0: --inline-snapshot=disable, 1: a CI variable, 2: xdist, 3: xdist worker):
    snapshot(v) is v in *every* test, whichever tests are marked xfail (real plugin hooks around each test)"""
    world.install_plugin_shims()
    v = [w, {1: c0}]
    out = []
    world.reset({"v": v, "w": w, "c0": c0, "out": out})
    route = 0 if route == 0 else (1 if route == 1 else (2 if route == 2 else 3))
    ci_var = None
    if route == 1:
        names = ["CI", "BUILD_ID", "GITHUB_ACTIONS", "TRAVIS", "TEAMCITY_VERSION"]
        for k, name in enumerate(names):
            if ci_idx == k:
                ci_var = name
    xf = {}
    for i in range(3):
        if xfail_mask[i]:
            xf[f"test_{i}"] = ("own", ())
    r = world.plugin_session(DIS_FILE, cli="disable" if route == 0 else None, ci_var=ci_var, nproc=(2 if route == 2 else ("worker" if route == 3 else None)), xfail=xf)
    PathLog.record(f"disabled{route}{ci_var}{[bool(b) for b in xfail_mask]}{[b for _, b in out]}", nontrivial=True,
                   sample={"route": ["disable flag", "CI variable", "xdist", "xdist worker"][route], "ci_var": ci_var, "xfail_tests": sorted(xf), "identity_results": [(n, bool(b)) for n, b in out]})
    if r.usage_error is not None or r.written:
        return False
    if len(out) != 5:
        return False
    want_last = w == c0
    for i, (n, b) in enumerate(out):
        if i == 3:
            if bool(b) != bool(want_last):
                return False
        elif not b:
            return False
    return True


def mixed_ops_typeerror(first, second, x0, c0):
    """one snapshot used with two different operations raises TypeError instead of producing an answer."""
    ns = {"x0": x0, "c0": c0, "out": []}
    world.reset(ns)
    ops = {"eq": "x0 == s", "le": "x0 <= s", "ge": "x0 >= s", "in": "x0 in s", "gi": "s[1] == x0"}
    arg = {"eq": "c0", "le": "c0", "ge": "c0", "in": "[c0]", "gi": "{1: c0}"}[first]
    t = HEAD + f"def test_a():\n    s = snapshot({arg})\n    out.append({ops[first]})\n    out.append({ops[second]})\n"
    r = world.core_session(t, set(), collect=False)
    e = r.outcomes.get("test_a")
    PathLog.record(f"mixed {first} {second} {type(e).__name__}", nontrivial=True, sample={"first": ops[first], "second": ops[second], "outcome": type(e).__name__})
    return isinstance(e, TypeError) and len(r.ns["out"]) == 1


GLB = {"disabled_route_case": disabled_route_case, "behaves_like": behaves_like, "getitem_like": getitem_like, "disabled_identity": disabled_identity, "mixed_ops_typeerror": mixed_ops_typeerror, "__name__": "harness.c06"}


def _bl(name, old_src, forms, xs_src, names, loop=False, twin=False):
    body = f"return behaves_like({old_src!r}, {forms!r}, {xs_src!r}, {{{', '.join(f'{n!r}: {n}' for n in names)}}}, {loop})"
    fn = mkfn(name + ("_twin" if twin else ""), [(n, "int") for n in names], body, GLB, post="not _" if twin else "_")
    return Cond(name + ("_twin" if twin else ""), fn, timeout=60 if twin else 600, twin=twin, group=name.split("_")[0],
                bounds=f"snapshot({old_src}) compared as {[f.format(x=x, s='s') for f, x in zip(forms, xs_src)]}{' (call site re-evaluated per observation)' if loop else ''}; leaves symbolic ints, no flags")


def conditions(tier):
    q = tier == "quick"
    conds = []
    # scalar bounds and equality, m <= 3 mixed forms
    for fam in ("eq", "le", "ge"):
        fs = FORMS[fam]
        for m in (1, 2, 3):
            for combo in range(len(fs) ** m):
                forms = [fs[(combo // (len(fs) ** i)) % len(fs)] for i in range(m)]
                if q and m == 3 and combo not in (0, 5):
                    continue
                conds.append(_bl(f"{fam}_int_m{m}_{combo}", "c0", forms, [f"x{i}" for i in range(m)], ["c0"] + [f"x{i}" for i in range(m)]))
        conds.append(_bl(f"{fam}_int_loop3", "c0", [fs[0]] * 3, ["x0", "x1", "x2"], ["c0", "x0", "x1", "x2"], loop=True))
    # containers with ==
    eqc = [
        ("list3", "[c0, c1, c2]", ["[x0, x1, x2]"], ["c0", "c1", "c2", "x0", "x1", "x2"]),
        ("list3_2", "[c0, c1, c2]", ["[x0, x1]"], ["c0", "c1", "c2", "x0", "x1"]),
        ("list2_twice", "[c0, c1]", ["[x0, x1]", "[x2, x3]"], ["c0", "c1", "x0", "x1", "x2", "x3"]),
        ("tuple2", "(c0, c1)", ["(x0, x1)"], ["c0", "c1", "x0", "x1"]),
        ("tuple_vs_list", "(c0, c1)", ["[x0, x1]"], ["c0", "c1", "x0", "x1"]),
        ("dict2", "{1: c0, 2: c1}", ["{1: x0, 2: x1}"], ["c0", "c1", "x0", "x1"]),
        ("dict2_keys", "{1: c0, 2: c1}", ["{1: x0, 3: x1}"], ["c0", "c1", "x0", "x1"]),
        ("nested", "[[c0], {1: c1}]", ["[[x0], {1: x1}]"], ["c0", "c1", "x0", "x1"]),
        ("dc", "P(a=c0, b=c1)", ["P(a=x0, b=x1)"], ["c0", "c1", "x0", "x1"]),
        ("dc_default", "P(a=c0)", ["P(a=x0, b=x1)"], ["c0", "x0", "x1"]),
        ("is_in_list", "[c0, Is(c1)]", ["[x0, x1]"], ["c0", "c1", "x0", "x1"]),
        ("is_in_dc", "P(a=c0, b=Is(c1))", ["P(a=x0, b=x1)"], ["c0", "c1", "x0", "x1"]),
        ("inner_snapshot", "[snapshot(c0), c1]", ["[x0, x1]"], ["c0", "c1", "x0", "x1"]),
        ("inner_snapshot3", "[c0, snapshot(c1), c2]", ["[x0, x1]"], ["c0", "c1", "c2", "x0", "x1"]),
        ("handwritten", "[h0, c1]", ["[x0, x1]"], ["h0", "c1", "x0", "x1"]),
    ]
    for name, old, xs, names in eqc:
        for fi, f in enumerate(FORMS["eq"]):
            conds.append(_bl(f"eq_{name}_{fi}", old, [f] * len(xs), xs, names))
    # bounds over containers (lists compare lexicographically)
    conds.append(_bl("le_list2", "[c0, c1]", ["{x} <= {s}", "{s} >= {x}"], ["[x0, x1]", "[x2, x3]"], ["c0", "c1", "x0", "x1", "x2", "x3"]))
    conds.append(_bl("ge_tuple2", "(c0, c1)", ["{x} >= {s}"], ["(x0, x1)"], ["c0", "c1", "x0", "x1"]))
    # membership
    for n in (0, 1, 2, 3):
        for m in (1, 2) if q else (1, 2, 3):
            names = [f"c{i}" for i in range(n)] + [f"x{i}" for i in range(m)]
            conds.append(_bl(f"in_list{n}_m{m}", "[" + ", ".join(f"c{i}" for i in range(n)) + "]", FORMS["in"] * m, [f"x{i}" for i in range(m)], names))
    conds.append(_bl("in_list2_loop3", "[c0, c1]", FORMS["in"] * 3, ["x0", "x1", "x2"], ["c0", "c1", "x0", "x1", "x2"], loop=True))
    conds.append(_bl("in_nested", "[[c0], [c1]]", FORMS["in"], ["[x0]"], ["c0", "c1", "x0"]))
    # sub-snapshots
    for old_keys, keys in [((1,), (1,)), ((1, 2), (2, 1)), ((1, 2), (1, 1)), ((1, 2, 3), (3, 1, 2))]:
        names = [f"c{i}" for i in range(len(old_keys))] + [f"x{i}" for i in range(len(keys))]
        name = f"gi_{''.join(map(str, old_keys))}_{''.join(map(str, keys))}"
        body = f"return getitem_like({old_keys!r}, {keys!r}, {{{', '.join(f'{n!r}: {n}' for n in names)}}})"
        conds.append(Cond(name, mkfn(name, [(n, "int") for n in names], body, GLB), timeout=600, group="gi",
                          bounds=f"s = snapshot(dict with keys {old_keys}); s[k] == x for k in {keys}"))
    conds.append(Cond("disabled_identity", mkfn("disabled_identity_c", [("x0", "int"), ("x1", "int")], "return disabled_identity(x0, x1)", GLB), timeout=300, group="disabled",
                      bounds="state().active == False: snapshot(v) is v for a nested container and an int"))
    for route in range(4):
        name = f"disabled_route_{['flag', 'ci', 'xdist', 'xdist_worker'][route]}"
        params = [("ci", "int"), ("xf0", "bool"), ("xf1", "bool"), ("xf2", "bool"), ("w", "int"), ("c0", "int")]
        conds.append(Cond(name, mkfn(name, params, f"return disabled_route_case({route}, ci, [xf0, xf1, xf2], w, c0)", GLB, pre=["0 <= ci <= 4"]), timeout=600, group="disabled",
                          bounds=f"session disabled by {['--inline-snapshot=disable', 'one of 5 CI variables', 'xdist (numprocesses=2)', 'an xdist worker config'][route]}; three tests, any subset of them marked xfail; snapshot(v) is v in every test"))
    opsn = ["eq", "le", "ge", "in", "gi"]
    for a in opsn:
        for b in opsn:
            if a != b:
                name = f"mixed_{a}_{b}"
                conds.append(Cond(name, mkfn(name, [("x0", "int"), ("c0", "int")], f"return mixed_ops_typeerror({a!r}, {b!r}, x0, c0)", GLB), timeout=300, group="mixed",
                                  bounds=f"one snapshot used with `{a}` then `{b}`"))
    conds.append(_bl("eq_list3", "[c0, c1, c2]", ["{x} == {s}"], ["[x0, x1, x2]"], ["c0", "c1", "c2", "x0", "x1", "x2"], twin=True))
    # comparisons outside any test item are not charged to a test (no flags: active run == plain Python per test)
    from harness import c07

    glb = {"outside_case": c07.outside_case, "__name__": "harness.c06"}
    for xf in (False, True):
        name = f"outside_test_items_noflags{'_xfail_first' if xf else ''}"
        body = f"return outside_case([False] * 6, {c07.VD}, {xf})"
        conds.append(Cond(name, mkfn(name, [(n, "int") for n in c07.VALS], body, glb), timeout=600, group="outside-items",
                          bounds="no flags: two comparisons at import time (right or wrong by symbolic values)" + (", an xfail test," if xf else "") + " then two tests with one == snapshot each: a test fails iff its own comparison is False"))
    return conds


META = {
    "bounds": {"quick": "<=3 comparisons per snapshot; ints, lists <=3, tuples, dicts <=2, nested, dataclass, Is() and inner snapshot() inside containers; 20 ordered pairs of mixed operations; sessions disabled by flag / CI variable / xdist / xdist worker with any subset of three tests marked xfail (real hooks)",
               "thorough": "same shapes, all form combinations for m=3, `in` with 3 observations"},
    "outside": "values that are not ints/containers of ints; comparisons that raise on the plain value; partially ordered values",
    "assumptions": ["no category flag and no review mode: state().update_flags is empty",
                    "which flag/environment combinations lead into the disabled state is decided in C04; here: the disabled state itself, and that it holds for every test of a session disabled by flag / CI / xdist whichever tests are xfail"],
}

world.prewarm(
    lambda: behaves_like("[c0, Is(c1)]", ["{x} == {s}"], ["[x0, x1]"], {"c0": 1, "c1": 2, "x0": 1, "x1": 2}),
    lambda: getitem_like((1, 2), (2, 1), {"c0": 1, "c1": 2, "x0": 2, "x1": 5}),
    lambda: mixed_ops_typeerror("eq", "in", 1, 1),
)
