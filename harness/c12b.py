"""C12 contract corpus (validation of the encoding's environment, no solver): real repr / real tokenizer / real black /
real plugin hooks on a fixed corpus of str and bytes values, top level and nested."""
from __future__ import annotations

from vlib import world
from vlib.common import Cond, PathLog, mkfn
from vlib.world import W

CORPUS = ["", " a ", "a ", " a", "a\nb", "\r\n", "'", '"', "'\"", "é", "\x00", "\U0001F600", "  ", "\ta", "a\t", "\n", " \n", "a\n", "\na", "a\n\nb", "x" * 100,
          "\\", "a\\", "\\n", "#", "# c", " # c ", "\x0c", "\x1b[0m", "a\rb", " ", "'''", '"""', 'a"""b\n\'\'\'c', "a\nb'''\"\"\"", "'''\n\"\"\"'", "\ud800", "\x7f\x80\xa0\xad",
          "line one \nline two  \n\n  three", "tab\there\n\tand there", "{}", "%s", "x_ = y", "_ = 1", "a = 'b'  # c", "def f():\n    return 1\n", "snapshot(1)", "import os\n_ = os\n", "\N{ZERO WIDTH SPACE}\n\N{LINE SEPARATOR}x",
          b"", b" a ", b"\n", b"a\nb\nc", b"'\"", b"\x00\xff", b"x" * 90]

T = '''from inline_snapshot import snapshot

def test_a():
    assert obs == snapshot()
    assert [obs] == snapshot()
    assert {"k": obs} == snapshot()
    assert (obs, 1) == snapshot()
'''


def corpus_pipeline():
    world.install_plugin_shims()
    ok = True
    for s in CORPUS:
        world.reset({"obs": s})
        try:
            r = world.plugin_session(T, cli="create")
            new = world.text_after(r)
            good = r.finish_error is None and bool(r.written) and world.passes_when_disabled(new)
            args = world.snapshot_arg_sources(new)
        except UnicodeEncodeError:
            # a lone surrogate cannot be written to a UTF-8 file unless escaped; the literal itself is checked below
            from inline_snapshot._utils import value_to_token
            import ast

            good = ast.literal_eval(value_to_token(s)[0].string) == s
            args = ["<not writable as utf-8>"]
        except Exception as e:
            good = False
            args = [repr(e)]
        PathLog.record(repr(s), nontrivial=True, sample={"value": repr(s), "written_arguments": args, "reads_back": bool(good)})
        if not good:
            ok = False
    return ok


T_FLOWS = '''from inline_snapshot import snapshot

def test_a():
    assert obs == snapshot("previous")
    assert [obs, 1] == snapshot(["previous", 1])
    assert obs <= snapshot("")
    assert obs in snapshot(["previous"])
    assert {1: obs} == snapshot({1: "previous", 2: 3})
'''
T_FLOWS_B = T_FLOWS.replace('"previous"', 'b"previous"').replace('snapshot("")', 'snapshot(b"")')


def corpus_other_flows():
    """the same corpus written by fix (whole value replaced, element replaced in place, bound, member, dict value)"""
    world.install_plugin_shims()
    ok = True
    for s in CORPUS:
        if isinstance(s, str) and "\ud800" in s:
            continue
        world.reset({"obs": s})
        t = T_FLOWS if isinstance(s, str) else T_FLOWS_B
        try:
            r = world.plugin_session(t, cli="fix,trim")
            new = world.text_after(r)
            good = r.finish_error is None and world.passes_when_disabled(new)
            args = world.snapshot_arg_sources(new)
        except Exception as e:
            good, args = False, [repr(e)]
        PathLog.record("flows" + repr(s), nontrivial=True, sample={"value": repr(s), "written_arguments": args, "reads_back": bool(good)})
        if not good:
            ok = False
    return ok


def second_run_is_noop():
    """the created literal is also token-stable (no pending update on a second run) - part of C08's leaf corpus"""
    world.install_plugin_shims()
    ok = True
    for s in CORPUS:
        if isinstance(s, str) and "\ud800" in s:
            continue
        world.reset({"obs": s})
        r = world.plugin_session(T, cli="create")
        new = world.text_after(r)
        r2 = world.plugin_session(new, cli="create,fix,trim,update")
        if r2.written or r2.finish_error is not None:
            ok = False
            PathLog.record("second" + repr(s), nontrivial=True, sample={"value": repr(s), "second_run_rewrote": world.snapshot_arg_sources(world.text_after(r2))})
    return ok


# ---- the literal inside the final file rewrite: an existing line that already holds non-ASCII / multi-line literals --------
# (program text concrete, data symbolic: int leaves are symbolic, the string that is written is picked by a symbolic
#  index from STRS, so the solver chooses which literal replaces which)
STRS = ["cafè", "€ 5", "", "a\nü\n", "\U0001F600'\"", "x"]
SPLICE = {
    "list_after_nonascii": ('    assert ["café", x0, "ü"] == snapshot(["café", c0, "ü"])\n', ["x0", "c0"], False),
    "dict_nonascii_key": ('    assert {"straße": x0, "k": x1} == snapshot({"straße": c0, "k": c1})\n', ["x0", "x1", "c0", "c1"], False),
    "str_replaced_whole": ('    é = "é"; assert S == snapshot("€ 5"), é\n', [], True),
    "str_replaced_in_list": ('    assert [S, "b", x0] == snapshot(["café", "b", c0])  # ✓\n', ["x0", "c0"], True),
    "str_replaced_after_astral": ('    assert ("\U0001F600", S, x0) == snapshot(("\U0001F600", "日本", c0))\n', ["x0", "c0"], True),
    "multi_line_nonascii": ('    assert ["日本", x0,\n            "ü", x1] == snapshot(["日本", c0,\n "ü", c1])\n', ["x0", "x1", "c0", "c1"], False),
    "triple_quoted_old": ('    assert [S, x0, "ß"] == snapshot(["""é\nü""", c0, "ß"])\n', ["x0", "c0"], True),
    "multi_line_whole": ('    assert S == snapshot("""é\nü""")  # ü\n', [], True),
    "multi_line_in_dict": ('    assert {1: S, 2: x0} == snapshot({1: """é\n  üöä""", 2: c0})\n', ["x0", "c0"], True),
    "member_next_to_multi_line": ('    assert x0 in snapshot(["""é\nüö"""])\n', ["x0"], False),
    "new_key_next_to_multi_line": ('    s = snapshot({1: """é\nüö"""})\n    assert s[2] == x0\n', ["x0"], False),
    "insert_after_multi_line": ('    assert ["""é\nüö""", x0, S] == snapshot(["""é\nüö"""])\n', ["x0"], True),
    "delete_multi_line": ('    assert [x0] == snapshot(["""é\nüö""", """\U0001F600\n€""", c0])\n', ["x0", "c0"], False),
    "call_argument_after_multi_line": ('    assert P(a="""é\nüö""", b=x0) == snapshot(P(a="""é\nüö"""))\n', ["x0"], False),
    "nonascii_identifier_bound": ('    é = x0; ü = "ü"; assert é <= snapshot(c0), ü\n', ["x0", "c0"], False),
    "dict_value_str": ('    assert {"ä": S, "ö": x0} == snapshot({"ä": "ä", "ö": c0})\n', ["x0", "c0"], True),
    "delete_and_insert": ('    assert ["ü", x0] == snapshot(["é", "ü", c0, "ß"])\n', ["x0", "c0"], False),
}
HEAD = "from inline_snapshot import snapshot\n\n\n"


def splice_case(tname, si, fbits, vals):
    """after the session every rewritten argument reads back (the test passes with inline-snapshot disabled when the
    needed categories were approved), the text outside the arguments is unchanged and the file still parses"""
    body, _, uses_s = SPLICE[tname]
    from harness.support import SUPPORT_NS

    ns = dict(SUPPORT_NS)
    ns.update(vals)
    chosen = None
    if uses_s:
        for k, v in enumerate(STRS):
            if si == k:
                chosen = v
        ns["S"] = chosen
    world.reset(ns)
    t = HEAD + "def test_a():\n" + body
    flags = [n for n, b in zip(["fix", "trim", "update", "create"], fbits) if b]
    r = world.plugin_session(t, cli=",".join(flags) if flags else "report")
    new = world.text_after(r)
    PathLog.record(f"{tname}{chosen!r}{flags}{sorted(r.written)}", nontrivial=bool(r.written),
                   sample={"template": tname, "string": repr(chosen), "flags": flags, "rewritten": world.snapshot_arg_sources(new) if r.written else None})
    if r.usage_error is not None or r.finish_error is not None:
        return False
    with world.NoTracing():
        import ast

        ast.parse(str(new))
    if world.mask_snapshot_args(new) != world.mask_snapshot_args(t):
        return False
    if "fix" in flags and "trim" in flags and "create" in flags:
        # everything that was wrong or superfluous is approved: the rewritten test passes without inline-snapshot
        return world.passes_when_disabled(new)
    if not r.written:
        return new == t
    return True


def conditions(tier):
    world.install_plugin_shims()
    return [
        Cond("corpus_pipeline", corpus_pipeline, concrete=True, group="contract-validation", bounds=f"{len(CORPUS)} fixed str/bytes values through the real create pipeline (real repr, tokenizer, black, hooks), top level and nested in list/dict/tuple"),
        Cond("corpus_other_flows", corpus_other_flows, concrete=True, group="contract-validation", bounds="the same corpus written by fix/trim over an existing value: whole value, list element in place, bound, member, dict value"),
        Cond("corpus_second_run", second_run_is_noop, concrete=True, group="contract-validation", bounds="the same corpus: a second run with all categories approved rewrites nothing"),
    ] + splice_conditions()


def splice_conditions():
    conds = []
    glb = {"splice_case": splice_case, "__name__": "harness.c12b"}
    for tname, (body, names, uses_s) in SPLICE.items():
        params = [("si", "int")] + [(f"f{i}", "bool") for i in range(4)] + [(n, "int") for n in names]
        vd = "{" + ", ".join(f"{n!r}: {n}" for n in names) + "}"
        pre = [f"0 <= si < {len(STRS)}" if uses_s else "si == 0"]
        name = f"splice_{tname}"
        conds.append(Cond(name, mkfn(name, params, f"return splice_case({tname!r}, si, [f0, f1, f2, f3], {vd})", glb, pre=pre), timeout=900, group="file-rewrite",
                          bounds=f"line {body.strip()!r}: int leaves symbolic" + (f", the written string one of {len(STRS)} (symbolic index)" if uses_s else "") + "; every subset of fix/trim/update/create"))
    tw = mkfn("splice_twin", [("si", "int"), ("f0", "bool"), ("f1", "bool"), ("f2", "bool"), ("f3", "bool"), ("x0", "int"), ("c0", "int")], "return splice_case('list_after_nonascii', si, [f0, f1, f2, f3], {'x0': x0, 'c0': c0})", glb, pre=["si == 0"], post="not _")
    conds.append(Cond("splice_twin", tw, timeout=60, twin=True))
    return conds


def replay(tier, condname, cex):
    if condname.startswith("splice_"):
        from vlib.common import generic_replay

        return generic_replay({c.name: c for c in splice_conditions()}[condname].fn, cex)
    W.concrete = True
    fn = {"corpus_pipeline": corpus_pipeline, "corpus_second_run": second_run_is_noop, "corpus_other_flows": corpus_other_flows}[condname]
    ok = fn()
    bad = [s for s in PathLog.samples if s.get("reads_back") is False or "second_run_rewrote" in s]
    return {"violated": not ok, "detail": repr(bad[:5])}
