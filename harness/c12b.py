"""C12 contract corpus (validation of the encoding's environment, no solver): real repr / real tokenizer / real black /
real plugin hooks on a fixed corpus of str and bytes values, top level and nested."""
from __future__ import annotations

from vlib import world
from vlib.common import Cond, PathLog
from vlib.world import W

CORPUS = ["", " a ", "a ", " a", "a\nb", "\r\n", "'", '"', "'\"", "é", "\x00", "\U0001F600", "  ", "\ta", "a\t", "\n", " \n", "a\n", "\na", "a\n\nb", "x" * 100,
          "\\", "a\\", "\\n", "#", "# c", " # c ", "\x0c", "\x1b[0m", "a\rb", " ", "'''", '"""', 'a"""b\n\'\'\'c', "a\nb'''\"\"\"", "'''\n\"\"\"'", "\ud800", "\x7f\x80\xa0\xad",
          "line one \nline two  \n\n  three", "tab\there\n\tand there", "{}", "%s", "x_ = y", "_ = 1", "a = 'b'  # c", "def f():\n    return 1\n", "snapshot(1)", "import os\n_ = os\n", "\N{ZERO WIDTH SPACE}\n\N{LINE SEPARATOR}x",
          b"", b" a ", b"\n", b"a\nb\nc", b"'\"", b"\x00\xff", b"x" * 90]

T = '''from inline_snapshot import snapshot

def test_a():
    assert obs == snapshot()
    assert [obs] == snapshot()
    assert {"k": obs} == snapshot()
    assert (obs, 1) == snapshot()
'''


def corpus_pipeline():
    world.install_plugin_shims()
    ok = True
    for s in CORPUS:
        world.reset({"obs": s})
        try:
            r = world.plugin_session(T, cli="create")
            new = world.text_after(r)
            good = r.finish_error is None and bool(r.written) and world.passes_when_disabled(new)
            args = world.snapshot_arg_sources(new)
        except UnicodeEncodeError:
            # a lone surrogate cannot be written to a UTF-8 file unless escaped; the literal itself is checked below
            from inline_snapshot._utils import value_to_token
            import ast

            good = ast.literal_eval(value_to_token(s)[0].string) == s
            args = ["<not writable as utf-8>"]
        except Exception as e:
            good = False
            args = [repr(e)]
        PathLog.record(repr(s), nontrivial=True, sample={"value": repr(s), "written_arguments": args, "reads_back": bool(good)})
        if not good:
            ok = False
    return ok


T_FLOWS = '''from inline_snapshot import snapshot

def test_a():
    assert obs == snapshot("previous")
    assert [obs, 1] == snapshot(["previous", 1])
    assert obs <= snapshot("")
    assert obs in snapshot(["previous"])
    assert {1: obs} == snapshot({1: "previous", 2: 3})
'''
T_FLOWS_B = T_FLOWS.replace('"previous"', 'b"previous"').replace('snapshot("")', 'snapshot(b"")')


def corpus_other_flows():
    """the same corpus written by fix (whole value replaced, element replaced in place, bound, member, dict value)"""
    world.install_plugin_shims()
    ok = True
    for s in CORPUS:
        if isinstance(s, str) and "\ud800" in s:
            continue
        world.reset({"obs": s})
        t = T_FLOWS if isinstance(s, str) else T_FLOWS_B
        try:
            r = world.plugin_session(t, cli="fix,trim")
            new = world.text_after(r)
            good = r.finish_error is None and world.passes_when_disabled(new)
            args = world.snapshot_arg_sources(new)
        except Exception as e:
            good, args = False, [repr(e)]
        PathLog.record("flows" + repr(s), nontrivial=True, sample={"value": repr(s), "written_arguments": args, "reads_back": bool(good)})
        if not good:
            ok = False
    return ok


def second_run_is_noop():
    """the created literal is also token-stable (no pending update on a second run) - part of C08's leaf corpus"""
    world.install_plugin_shims()
    ok = True
    for s in CORPUS:
        if isinstance(s, str) and "\ud800" in s:
            continue
        world.reset({"obs": s})
        r = world.plugin_session(T, cli="create")
        new = world.text_after(r)
        r2 = world.plugin_session(new, cli="create,fix,trim,update")
        if r2.written or r2.finish_error is not None:
            ok = False
            PathLog.record("second" + repr(s), nontrivial=True, sample={"value": repr(s), "second_run_rewrote": world.snapshot_arg_sources(world.text_after(r2))})
    return ok


def conditions(tier):
    return [
        Cond("corpus_pipeline", corpus_pipeline, concrete=True, group="contract-validation", bounds=f"{len(CORPUS)} fixed str/bytes values through the real create pipeline (real repr, tokenizer, black, hooks), top level and nested in list/dict/tuple"),
        Cond("corpus_other_flows", corpus_other_flows, concrete=True, group="contract-validation", bounds="the same corpus written by fix/trim over an existing value: whole value, list element in place, bound, member, dict value"),
        Cond("corpus_second_run", second_run_is_noop, concrete=True, group="contract-validation", bounds="the same corpus: a second run with all categories approved rewrites nothing"),
    ]


def replay(tier, condname, cex):
    W.concrete = True
    fn = {"corpus_pipeline": corpus_pipeline, "corpus_second_run": second_run_is_noop, "corpus_other_flows": corpus_other_flows}[condname]
    ok = fn()
    bad = [s for s in PathLog.samples if s.get("reads_back") is False or "second_run_rewrote" in s]
    return {"violated": not ok, "detail": repr(bad[:5])}
