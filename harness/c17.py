"""C17 - what is recorded is the value at comparison time.

D-core; the compared value is a nested list/dict of symbolic ints that the test mutates after the assertion or between
repeated assertions (mutation kind enumerated, operands symbolic).  Oracle: the values read back from the rewritten text
equal the harness's own copies taken at comparison time.  Second harness: a value whose deep copy compares unequal
(symbolic bool) is rejected with UsageError exactly then.
"""
from __future__ import annotations

from inline_snapshot._exceptions import UsageError
from vlib import world
from vlib.common import Cond, PathLog, mkfn
from vlib.world import W

ID = "C17"
world.install_shims()
HEAD = "from inline_snapshot import snapshot\n\n"

MUTATIONS = {
    "append": "v.append(m0)",
    "setitem0": "v[0] = m0",
    "nested_set": "v[1][0] = m0",
    "nested_append": "v[1].append(m0)",
    "clear": "v.clear()",
    "del0": "del v[0]",
    "extend_nested_alias": "v[1] += [m0]",
}
DMUT = {"dset_new": "v[2] = m0", "dset_old": "v[1] = m0", "dnested": "v[1].append(m0)", "dpop": "v.pop(1)", "dclear": "v.clear()"}


def after_case(op, mut, old_src, approved, vals, top="list"):
    """one assertion, then the value is mutated.  top: the compared value is a list or a tuple holding a list"""
    world.reset(dict(vals))
    x0, x1, m0 = vals["x0"], vals["x1"], vals["m0"]
    if op == "==":
        line = f"    assert v == snapshot({old_src})"
    elif op in ("<=", ">="):
        line = f"    assert v {op} snapshot({old_src})"
    elif op == "in":
        line = f"    assert v in snapshot({old_src})"
    else:
        line = f"    s = snapshot({old_src})\n    assert s[1] == v"
    vsrc = "[x0, [x1]]" if top == "list" else "(x0, [x1])"
    t = HEAD + f"def test_a():\n    v = {vsrc}\n{line}\n    {MUTATIONS[mut]}\n    keep.append(v)\n"
    W.ns["keep"] = []
    r = world.core_session(t, approved)
    want = [x0, [x1]] if top == "list" else (x0, [x1])
    got = world.snapshot_values(r.text)[0]
    PathLog.record(f"{op}{mut}{old_src}{r.text}", nontrivial=r.changed, sample={"operation": op, "mutation_after_assert": MUTATIONS[mut], "previous": old_src or "<empty>", "approved": sorted(approved), "rewritten": world.snapshot_arg_sources(r.text)[0]})
    if r.outcomes.get("test_a") != "passed":
        return False
    if got is world.MISSING:
        return False
    if op in ("==", "<=", ">="):
        return got == want
    if op == "in":
        return len(got) >= 1 and got[-1] == want and all((g == want or old_src) for g in got)
    return got == {1: want}


def between_case(op, mut, vals):
    """the same object is compared twice and mutated in between (create)"""
    world.reset(dict(vals))
    x0, x1, m0 = vals["x0"], vals["x1"], vals["m0"]
    cmpx = {"<=": "v <= s", ">=": "v >= s", "in": "v in s"}[op]
    t = HEAD + f"def test_a():\n    s = snapshot()\n    v = [x0, [x1]]\n    assert {cmpx}\n    {MUTATIONS[mut]}\n    assert {cmpx}\n    v.append(99)\n    keep.append(v)\n"
    W.ns["keep"] = []
    r = world.core_session(t, {"create"})
    first = [x0, [x1]]
    second = eval_mutation(first, mut, m0)
    got = world.snapshot_values(r.text)[0]
    PathLog.record(f"between{op}{mut}{r.text}", nontrivial=r.changed, sample={"operation": op, "mutation_between_asserts": MUTATIONS[mut], "rewritten": world.snapshot_arg_sources(r.text)[0]})
    if r.outcomes.get("test_a") != "passed" or got is world.MISSING:
        return False
    if op == "<=":
        return got == (second if second > first else first)
    if op == ">=":
        return got == (second if second < first else first)
    if first == second:
        return got == [first]
    return got == [first, second]


def eval_mutation(v, mut, m0):
    import copy

    v = copy.deepcopy(v)
    if mut == "append":
        v.append(m0)
    elif mut == "setitem0":
        v[0] = m0
    elif mut == "nested_set":
        v[1][0] = m0
    elif mut in ("nested_append", "extend_nested_alias"):
        v[1].append(m0)
    elif mut == "clear":
        v.clear()
    elif mut == "del0":
        del v[0]
    return v


def dict_case(mut, has_old, approved, vals):
    world.reset(dict(vals))
    x0, m0 = vals["x0"], vals["m0"]
    old = "{1: [c0]}" if has_old else ""
    t = HEAD + f"def test_a():\n    v = {{1: [x0]}}\n    assert v == snapshot({old})\n    {DMUT[mut]}\n    keep.append(v)\n"
    W.ns["keep"] = []
    r = world.core_session(t, approved)
    got = world.snapshot_values(r.text)[0]
    PathLog.record(f"dict{mut}{has_old}{r.text}", nontrivial=r.changed, sample={"mutation_after_assert": DMUT[mut], "previous": old or "<empty>", "rewritten": world.snapshot_arg_sources(r.text)[0]})
    return r.outcomes.get("test_a") == "passed" and got is not world.MISSING and got == {1: [x0]}


class Odd:
    """a value whose deep copy compares (un)equal as told"""

    def __init__(self, equal_to_copy, tag):
        self.equal_to_copy = equal_to_copy
        self.tag = tag

    def __eq__(self, other):
        return self.equal_to_copy

    def __repr__(self):
        return "Odd(True, 0)"


def uncopyable_case(eq, op):
    world.reset({"Odd": Odd, "obj": Odd(eq, 0)})
    cmpx = {"==": "snapshot() == obj", "<=": "obj <= snapshot()", "in": "obj in snapshot()", "[]": "snapshot()[1] == obj"}[op]
    t = HEAD + f"def test_a():\n    assert {cmpx}\n"
    r = world.core_session(t, {"create"}, collect=False)
    out = r.outcomes.get("test_a")
    PathLog.record(f"odd{op}{type(out).__name__}", nontrivial=True, sample={"operation": op, "deepcopy_equal": bool(eq), "outcome": type(out).__name__ if out != "passed" else "passed"})
    if eq:
        return not isinstance(out, UsageError)
    return isinstance(out, UsageError)


WRAPS = {"bare": "{o}", "list": "[{o}]", "dict": "{{'a': {o}}}", "tuple": "({o}, 1)"}
GOOD = {"bare": "x0", "list": "[x0]", "dict": "{'a': x0}", "tuple": "(x0, 1)"}


def uncopyable_sequence_case(eq0, eq1, good_first, op, wrap, x0):
    """the rejection is decided for every value on its own: a well-behaved value of the same outer type recorded
    earlier in the session (or an earlier rejected one) does not change the verdict for a later value"""
    world.reset({"Odd": Odd, "obj0": Odd(eq0, 0), "obj1": Odd(eq1, 1), "x0": x0})
    def cmpx(v):
        return {"==": f"snapshot() == {v}", "in": f"{v} in snapshot()", "[]": f"snapshot()[1] == {v}"}[op]
    t = HEAD
    if good_first:
        t += f"def test_0():\n    assert {cmpx(GOOD[wrap])}\n\n\n"
    t += f"def test_a():\n    assert {cmpx(WRAPS[wrap].format(o='obj0'))}\n\n\ndef test_b():\n    assert {cmpx(WRAPS[wrap].format(o='obj1'))}\n"
    r = world.core_session(t, {"create"}, collect=False)
    oa, ob = r.outcomes.get("test_a"), r.outcomes.get("test_b")
    PathLog.record(f"oddseq{op}{wrap}{good_first}{type(oa).__name__}{type(ob).__name__}", nontrivial=True,
                   sample={"operation": op, "wrapped_in": wrap, "good_value_first": bool(good_first), "deepcopy_equal": [bool(eq0), bool(eq1)], "outcomes": [type(o).__name__ if o != "passed" else "passed" for o in (oa, ob)]})
    for eq, out in ((eq0, oa), (eq1, ob)):
        if eq and isinstance(out, UsageError):
            return False
        if not eq and not isinstance(out, UsageError):
            return False
    return True


GLB = {"uncopyable_sequence_case": uncopyable_sequence_case, "after_case": after_case, "between_case": between_case, "dict_case": dict_case, "uncopyable_case": uncopyable_case, "__name__": "harness.c17"}
V3 = [("x0", "int"), ("x1", "int"), ("m0", "int")]
VD3 = "{'x0': x0, 'x1': x1, 'm0': m0}"


def conditions(tier):
    q = tier == "quick"
    conds = []
    for op, opn in (("==", "eq"), ("<=", "le"), (">=", "ge"), ("in", "in"), ("[]", "gi")):
        for mut in MUTATIONS:
            for old_src, oldn, approved, extra in (("", "create", {"create"}, []), ({"==": "[c0, [c1]]", "<=": "[c0, [c1]]", ">=": "[c0, [c1]]", "in": "[[c0, [c1]]]", "[]": "{1: [c0, [c1]]}"}[op], "fix", {"fix", "trim"}, ["c0", "c1"])):
                if q and oldn == "fix" and mut in ("del0", "extend_nested_alias", "clear"):
                    continue
                names = V3 + [(n, "int") for n in extra]
                vd = "{" + ", ".join(f"{n!r}: {n}" for n, _ in names) + "}"
                name = f"after_{opn}_{mut}_{oldn}"
                pre = []
                if oldn == "fix" and op == "<=":
                    pre = ["c0 < x0"]  # make it a fix (the observed value exceeds the bound)
                if oldn == "fix" and op == ">=":
                    pre = ["c0 > x0"]  # make it a fix (the observed value is below the bound)
                body = f"return after_case({op!r}, {mut!r}, {old_src!r}, {approved!r}, {vd})"
                conds.append(Cond(name, mkfn(name, names, body, GLB, pre=pre), timeout=600, group="after",
                                  bounds=f"v = [x0, [x1]]; assert v {op} snapshot({old_src}); then `{MUTATIONS[mut]}`; approved {sorted(approved)}; all ints symbolic"))
    # shallowly immutable containers: a tuple that holds a list
    for op, opn in (("==", "eq"), ("<=", "le"), (">=", "ge"), ("in", "in"), ("[]", "gi")):
        for mut in ("nested_set", "nested_append"):
            name = f"after_tuple_{opn}_{mut}"
            body = f"return after_case({op!r}, {mut!r}, '', {{'create'}}, {VD3}, 'tuple')"
            conds.append(Cond(name, mkfn(name, V3, body, GLB), timeout=600, group="after",
                              bounds=f"v = (x0, [x1]); assert v {op} snapshot(); then `{MUTATIONS[mut]}`; create"))
    for op, opn in (("<=", "le"), (">=", "ge"), ("in", "in")):
        for mut in MUTATIONS:
            if mut == "extend_nested_alias" and q:
                continue
            if mut == "del0" and op != "in":
                continue  # [[x1]] and [x0, [x1]] are not comparable with <= (the plain comparison raises too)
            name = f"between_{opn}_{mut}"
            conds.append(Cond(name, mkfn(name, V3, f"return between_case({op!r}, {mut!r}, {VD3})", GLB), timeout=600, group="between",
                              bounds=f"the same list object compared twice with `{op}` against one empty snapshot, `{MUTATIONS[mut]}` in between, create"))
    for mut in DMUT:
        for has_old, approved in ((False, {"create"}), (True, {"fix"})):
            name = f"dict_{mut}_{'fix' if has_old else 'create'}"
            names = [("x0", "int"), ("m0", "int")] + ([("c0", "int")] if has_old else [])
            vd = "{" + ", ".join(f"{n!r}: {n}" for n, _ in names) + "}"
            conds.append(Cond(name, mkfn(name, names, f"return dict_case({mut!r}, {has_old}, {approved!r}, {vd})", GLB), timeout=600, group="dict",
                              bounds=f"v = {{1: [x0]}}; assert v == snapshot(..); then `{DMUT[mut]}`"))
    for op, opn in (("==", "eq"), ("<=", "le"), ("in", "in"), ("[]", "gi")):
        name = f"uncopyable_{opn}"
        conds.append(Cond(name, mkfn(name, [("eq", "bool")], f"return uncopyable_case(eq, {op!r})", GLB), timeout=300, group="uncopyable",
                          bounds=f"a value whose deep copy compares equal / unequal (symbolic), used with `{op}`: UsageError exactly when unequal"))
    for op, opn in (("==", "eq"), ("in", "in"), ("[]", "gi")):
        for wrap in WRAPS:
            name = f"uncopyable_seq_{opn}_{wrap}"
            fn = mkfn(name, [("eq0", "bool"), ("eq1", "bool"), ("good_first", "bool"), ("x0", "int")], f"return uncopyable_sequence_case(eq0, eq1, good_first, {op!r}, {wrap!r}, x0)", GLB)
            conds.append(Cond(name, fn, timeout=300, group="uncopyable",
                              bounds=f"one session, up to three tests using `{op}`: optionally a well-behaved value `{GOOD[wrap]}` first, then two values `{WRAPS[wrap].format(o='obj')}` whose deep copies compare equal / unequal (symbolic): UsageError exactly for the unequal ones"))
    tw = mkfn("after_twin", V3, f"return after_case('==', 'append', '', {{'create'}}, {VD3})", GLB, post="not _")
    conds.append(Cond("after_twin", tw, timeout=60, twin=True))
    return conds


META = {
    "bounds": {"quick": "value [x0, [x1]] / {1: [x0]} (depth 2) with 7 list and 5 dict mutations (operands symbolic) after one assertion (create and fix; ==, <=, >=, in, [key]) or between two assertions of the same object; operations ==, <=, >=, in, [key]; a tuple holding a list",
               "thorough": "all mutation x approval combinations"},
    "outside": "deeper or other value types; objects with custom __deepcopy__",
    "assumptions": ["stub: repr of a symbolic int leaf is a name token"],
}

world.prewarm(lambda: after_case("==", "append", "", {"create"}, {"x0": 1, "x1": 2, "m0": 3}), lambda: between_case("in", "setitem0", {"x0": 1, "x1": 2, "m0": 3}))
